package metric

import (
	"unicode/utf8"

	"github.com/prometheus/client_golang/prometheus"

	vf "github.com/ozontech/file.d/zzverif"
)

// C13: label values of file.d's metrics often come from event fields. prometheus panics on a label
// value that is not valid UTF-8 (GetMetricWithLabelValues -> validateLabelValues), and nothing recovers
// that on the processor goroutine; so what the metric store hands on must be valid UTF-8 for every
// event content and every max_label_value_length.
func VerifH_C13_metricLabelValues() {
	h := &heldMetricsStore[prometheus.Counter]{metricMaxLabelValueLength: []int{0, 1, 2, 3}[vf.Choose("max-label-length", 4)]}
	n := vf.Choose("len", vf.Param("N", 4)+1)
	label := string(vf.Bytes("label", n))
	lvs := []string{"fixed", label}
	h.truncateLabels(lvs)
	if vf.Param("twin", 0) == 1 {
		vf.Assert(len(lvs[1]) > len(label)+3*n, "twin")
		return
	}
	vf.Assert(utf8.ValidString(lvs[0]) && utf8.ValidString(lvs[1]), "label-value-is-valid-utf8")
	if h.metricMaxLabelValueLength != 0 && utf8.ValidString(label) && len(label) <= h.metricMaxLabelValueLength {
		vf.Assert(lvs[1] == label, "short-valid-label-unchanged")
	}
	vf.Reach("label-checked")
}
