package decoder

import (
	"bytes"
	"sync"

	insaneJSON "github.com/ozontech/insane-json"

	vf "github.com/ozontech/file.d/zzverif"
)

const verifGuard = 2

// verifInput returns a line of symbolic bytes of symbolic length 0..N inside a
// larger backing array (guard bytes after it), plus a copy for comparison.
func verifInput(maxN int) (line []byte, whole []byte, before []byte) {
	n := vf.Choose("len", maxN+1)
	whole = vf.Bytes("data", n+verifGuard)
	before = append([]byte(nil), whole...)
	return whole[: n : n+verifGuard], whole, before
}

func verifGuardIntact(whole, before []byte, n int) bool {
	return vf.SameBytes(whole[n:], before[n:])
}

// ---- CRI ----

// reference splitter: "<time> <stream(6 bytes)> <tags> <log>"
func verifRefCRI(d []byte) (ok bool, tm, stream, log []byte, partial bool) {
	pos := bytes.IndexByte(d, ' ')
	if pos < 0 {
		return
	}
	tm = d[:pos]
	d = d[pos+1:]
	for {
		pos = bytes.IndexByte(d, ' ')
		if pos < 0 {
			return
		}
		stream = d[:pos]
		d = d[pos+1:]
		if len(stream) == 6 {
			break
		}
	}
	pos = bytes.IndexByte(d, ' ')
	if pos < 0 || pos == 0 {
		return
	}
	partial = d[0] == 'P'
	log = d[pos+1:]
	if partial && len(log) > 0 {
		log = log[:len(log)-1]
	}
	return true, tm, stream, log, partial
}

func VerifH_C12_cri() {
	line, whole, before := verifInput(vf.Param("N", 12))
	n := len(line)
	row, err := DecodeCRI(line)
	vf.Assert(vf.SameBytes(whole, before), "cri-input-unchanged")
	ok, tm, stream, log, partial := verifRefCRI(before[:n])
	if vf.Param("twin", 0) == 1 {
		vf.Assert((err == nil) == !ok, "cri-accepts-iff-wellformed")
		return
	}
	vf.Assert((err == nil) == ok, "cri-accepts-iff-wellformed")
	if err == nil {
		vf.Assert(vf.SameBytes(row.Time, tm), "cri-time")
		vf.Assert(vf.SameBytes(row.Stream, stream), "cri-stream")
		vf.Assert(vf.SameBytes(row.Log, log), "cri-log")
		vf.Assert(row.IsPartial == partial, "cri-partial")
		vf.Reach("cri-decoded")
		if partial {
			vf.Reach("cri-partial")
		}
	}
	vf.Observe("cri", err == nil, row.Time, row.Stream, row.Log, row.IsPartial)
}

// verifStaged returns prefix+tail where prefix is one of the given concrete
// stage prefixes (a case split) and tail is 0..T symbolic bytes, inside a
// backing array with guard bytes.
func verifStaged(prefixes []string, maxT int) (line, whole, before []byte) {
	var p string
	if st := vf.Param("stage", -1); st >= 0 {
		p = prefixes[st]
	} else {
		p = prefixes[vf.Choose("stage", len(prefixes))]
	}
	t := vf.Choose("tail", maxT+1)
	tail := vf.Bytes("tail", t+verifGuard)
	if vf.Param("ascii", 0) == 1 {
		for _, c := range tail[:t] {
			vf.Assume(c < 0x80)
		}
	}
	whole = append([]byte(p), tail...)
	before = append([]byte(nil), whole...)
	n := len(p) + t
	return whole[: n : n+verifGuard], whole, before
}

// ---- postgres ----

var verifPGStages = []string{"", "a ", "a b ", "a b c ", "a b c [1]", "a b c [1] [", "a b c [1] [2]",
	"a b c [1] [2] c=1,", "a b c [1] [2] c=1,d=2,", "a b c [1] [2] c=1,d=2,u=3 ", "a b c [1] [2] c=1,d=2,u=3 L: "}

func VerifH_C12_postgres() {
	line, whole, before := verifStaged(verifPGStages, vf.Param("T", 5))
	n := len(line)
	var row PostgresRow
	var err error
	row, err = DecodePostgres(line)
	vf.Assert(verifGuardIntact(whole, before, n), "postgres-no-write-past-line")
	if vf.Param("twin", 0) == 1 {
		vf.Assert(err != nil, "postgres-twin")
		return
	}
	if err == nil {
		vf.Reach("postgres-decoded")
	}
	vf.Observe("postgres", err == nil, row.Time, row.PID, row.PIDMessageNumber, row.Client, row.DB, row.User, row.Log)
}

// fidelity: a well-formed line built from symbolic field contents decodes to exactly its fields
func verifField(name string, maxLen int, forbidden string) []byte {
	n := vf.Choose(name+"-len", maxLen+1)
	b := vf.Bytes(name, n)
	for _, c := range b {
		for i := 0; i < len(forbidden); i++ {
			vf.Assume(c != forbidden[i])
		}
	}
	return b
}

func verifCat(parts ...[]byte) []byte {
	var out []byte
	for _, p := range parts {
		out = append(out, p...)
	}
	return out
}

func VerifH_C12_postgresFidelity() {
	L := vf.Param("F", 2)
	t1 := verifField("t1", L, " ")
	t2 := verifField("t2", L, " ")
	t3 := verifField("t3", L, " ")
	pid := verifField("pid", L, "]")
	num := verifField("num", L, "]")
	client := verifField("client", L, "=,")
	db := verifField("db", L, "=,")
	user := verifField("user", L, "=, ")
	lvl := verifField("lvl", L, " ")
	msg := verifField("msg", L, "")
	sp, eq, cm := []byte(" "), []byte("="), []byte(",")
	line := verifCat(t1, sp, t2, sp, t3, sp, []byte("["), pid, []byte("] => ["), num, []byte("] client"), eq, client, cm,
		[]byte("db"), eq, db, cm, []byte("user"), eq, user, sp, lvl, []byte(":  "), msg)
	want := append([]byte(nil), line...)
	_ = want
	row, err := DecodePostgres(line)
	if vf.Param("twin", 0) == 1 {
		vf.Assert(err != nil, "pgfid-twin")
		return
	}
	vf.Assert(err == nil, "pgfid-accepts-wellformed")
	if err != nil {
		return
	}
	vf.Assert(vf.SameBytes(row.Time, verifCat(t1, sp, t2, sp, t3)), "pgfid-time")
	vf.Assert(vf.SameBytes(row.PID, pid), "pgfid-pid")
	vf.Assert(vf.SameBytes(row.PIDMessageNumber, num), "pgfid-num")
	vf.Assert(vf.SameBytes(row.Client, client), "pgfid-client")
	vf.Assert(vf.SameBytes(row.DB, db), "pgfid-db")
	vf.Assert(vf.SameBytes(row.User, user), "pgfid-user")
	vf.Assert(vf.SameBytes(row.Log, msg), "pgfid-log")
	vf.Reach("pgfid-decoded")
}

// ---- nginx_error ----

var verifNginxStages = []string{"", "2022/08/17 10:49:27 ", "2022/08/17 10:49:27 [error] ", "2022/08/17 10:49:27 [error] 1#2: ",
	"2022/08/17 10:49:27 [error] 1#2: *3 ", "2022/08/17 10:49:27 [error] 1#2: *3 m, a: "}

func VerifH_C12_nginx() {
	line, whole, before := verifStaged(verifNginxStages, vf.Param("T", 5))
	custom := vf.Choose("custom", 2) == 1
	d := &nginxErrorDecoder{params: nginxErrorParams{withCustomFields: custom}}
	rowAny, err := d.Decode(line)
	vf.Assert(vf.SameBytes(whole, before), "nginx-input-unchanged")
	if vf.Param("twin", 0) == 1 {
		vf.Assert(err != nil, "nginx-twin")
		return
	}
	if err == nil {
		row := rowAny.(NginxErrorRow)
		vf.Reach("nginx-decoded")
		vf.Observe("nginx", row.Time, row.Level, row.PID, row.TID, row.CID, row.Message)
	}
}

// ---- syslog ----

var verifSyslog3164Stages = []string{"", "<34>", "<34>Oct 11 22:14:1", "<34>Oct 11 22:14:15 ", "<34>Oct 11 22:14:15 h ", "<34>Oct 11 22:14:15 h app", "<34>Oct 11 22:14:15 h app[1"}

func VerifH_C12_syslog3164() {
	line, whole, before := verifStaged(verifSyslog3164Stages, vf.Param("T", 5))
	d := &syslogRFC3164Decoder{params: syslogParams{facilityFormat: spfNumber, severityFormat: spfNumber}}
	rowAny, err := d.Decode(line)
	vf.Assert(vf.SameBytes(whole, before), "syslog3164-input-unchanged")
	if vf.Param("twin", 0) == 1 {
		vf.Assert(err != nil, "syslog3164-twin")
		return
	}
	if err == nil {
		row := rowAny.(SyslogRFC3164Row)
		vf.Reach("syslog3164-decoded")
		vf.Observe("syslog3164", row.Priority, row.Timestamp, row.Hostname, row.AppName, row.ProcID, row.Message)
	}
}

var verifSyslog5424Stages = []string{"", "<34>", "<34>1 ", "<34>1 2003-10-11T22:14:15", "<34>1 - ", "<34>1 - - - - ", "<34>1 - - - - - ",
	"<34>1 - - - - - [ab ", "<34>1 - - - - - [ab c=\"d", "<34>1 - - - - - [ab c=\"d\"]"}

func VerifH_C12_syslog5424() {
	line, whole, before := verifStaged(verifSyslog5424Stages, vf.Param("T", 5))
	d := &syslogRFC5424Decoder{params: syslogParams{facilityFormat: spfNumber, severityFormat: spfNumber}}
	rowAny, err := d.Decode(line)
	vf.Assert(vf.SameBytes(whole, before), "syslog5424-input-unchanged")
	if vf.Param("twin", 0) == 1 {
		vf.Assert(err != nil, "syslog5424-twin")
		return
	}
	if err == nil {
		row := rowAny.(SyslogRFC5424Row)
		vf.Reach("syslog5424-decoded")
		vf.Observe("syslog5424", row.Priority, row.ProtoVersion, row.Timestamp, row.Hostname, row.AppName, row.ProcID, row.MsgID, row.Message)
	}
}

// ---- csv ----

var verifCSVStages = []string{"", "a,", "\"a\"", "\"a\"\"", "a,\"b"}

func VerifH_C12_csv() {
	line, whole, before := verifStaged(verifCSVStages, vf.Param("T", 5))
	n := len(line)
	d := &CSVDecoder{params: CSVParams{delimiter: ','}}
	d.buffersPool.New = func() any { return NewCSVBuffers() }
	rowAny, err := d.Decode(line)
	vf.Assert(verifGuardIntact(whole, before, n), "csv-no-write-past-line")
	if vf.Param("twin", 0) == 1 {
		vf.Assert(err != nil, "csv-twin")
		return
	}
	if err == nil {
		row := rowAny.(CSVRow)
		vf.Reach("csv-decoded")
		vf.Observe("csv", len(row))
	}
}

// C12: CSV rows are the fields of the record, and stay so while the same decoder decodes the next line
// (rows are handed to events that outlive the call).
func VerifH_C12_csvFidelity() {
	d := &CSVDecoder{params: CSVParams{delimiter: ','}}
	d.buffersPool.New = func() any { return NewCSVBuffers() }
	build := func(tag string) ([]byte, []string) {
		nf := 1 + vf.Choose(tag+"-fields", vf.Param("F", 2))
		var line []byte
		var want []string
		for i := 0; i < nf; i++ {
			if i > 0 {
				line = append(line, ',')
			}
			switch vf.Choose(tag+"-kind", 4) {
			case 0: // plain
				b := vf.Bytes(tag+"-plain", 1+vf.Choose(tag+"-plain-len", 2))
				for _, c := range b {
					vf.Assume(c != ',' && c != '"' && c > ' ' && c < 0x7f) // the decoder trims white space around the last field
				}
				line = append(line, b...)
				want = append(want, string(b))
			case 1: // empty
				want = append(want, "")
			case 2: // quoted with a delimiter and a doubled quote inside
				line = append(line, `"a,""b"`...)
				want = append(want, `a,"b`)
			case 3: // quoted, symbolic content
				c := vf.Byte(tag + "-quoted")
				vf.Assume(c != '"' && c != '\n' && c != '\r' && c < 0x80)
				line = append(line, '"', c, 'z', '"')
				want = append(want, string([]byte{c, 'z'}))
			}
		}
		if nf == 1 && len(line) == 0 {
			line = append(line, 'q')
			want[0] = "q"
		}
		if vf.Choose(tag+"-crlf", 2) == 1 {
			line = append(line, '\r')
		}
		line = append(line, '\n')
		return line, want
	}
	same := func(row CSVRow, want []string) bool {
		if len(row) != len(want) {
			return false
		}
		ok := true
		for i := range want {
			if len(row[i]) != len(want[i]) {
				return false
			}
			for j := 0; j < len(want[i]); j++ {
				ok = vf.And(ok, row[i][j] == want[i][j])
			}
		}
		return ok
	}
	l1, w1 := build("first")
	r1, err := d.Decode(l1)
	if vf.Param("twin", 0) == 1 {
		vf.Assert(err != nil, "csv-twin")
		return
	}
	vf.Assert(err == nil, "csv-valid-record-decodes")
	if err != nil {
		return
	}
	vf.Assert(same(r1.(CSVRow), w1), "csv-row-is-the-record")
	l2, w2 := build("second")
	r2, err := d.Decode(l2)
	vf.Assert(err == nil, "csv-valid-record-decodes")
	if err != nil {
		return
	}
	vf.Assert(same(r2.(CSVRow), w2), "csv-row-is-the-record")
	vf.Assert(same(r1.(CSVRow), w1), "csv-earlier-row-survives-next-decode")
	vf.Reach("csv-two-rows")
}

// ---- json_max_fields_size ----

// C12: per-field size limits cut only the named string field and always leave valid JSON.
func VerifH_C12_jsonMaxFields() {
	contents := []string{`abcdef`, `ab`, ``, `\"\"\"\"xyz`, `a\\b\\c`, `ABC`, `日本語テキスト`, `ab\u00e9cdefgh`, `\u0041\u0042xy`}
	k := vf.Choose("content", len(contents))
	limit := vf.Choose("limit", vf.Param("LIM", 4))
	other := `"n":12,"g":"` + contents[(k+1)%len(contents)] + `"`
	doc := `{"f":"` + contents[k] + `",` + other + `}`
	if vf.Choose("field-last", 2) == 1 {
		doc = `{` + other + `,"f":"` + contents[k] + `"}`
	}
	// the original values, for comparison
	orig := insaneJSON.Spawn()
	if err := orig.DecodeString(doc); err != nil {
		vf.Fail("bad-template")
		return
	}
	wantF := orig.Dig("f").AsString()
	wantG := orig.Dig("g").AsString()

	buf := append([]byte(doc), "XY"...) // guard bytes: the next line in the caller's buffer
	line := buf[:len(doc):len(buf)]
	d := &jsonDecoder{params: jsonParams{maxFieldsSize: map[string]int{"f": limit}}}
	if vf.Param("twin", 0) != 1 {
		cutBuf := append([]byte(doc), "XY"...)
		cut := d.cutFieldsBySize(cutBuf[:len(doc):len(cutBuf)])
		vf.Assert(verifStrictJSON(cut), "limited-document-is-strictly-valid-json")
	}
	root := insaneJSON.Spawn()
	err := d.DecodeToJson(root, line)
	if vf.Param("twin", 0) == 1 {
		vf.Assert(err != nil, "twin")
		return
	}
	vf.Assert(err == nil, "limited-document-is-valid-json")
	vf.Assert(string(buf[len(doc):]) == "XY", "no-write-past-the-line")
	if err != nil {
		return
	}
	got := root.Dig("f").AsString()
	vf.Assert(root.Dig("g").AsString() == wantG && root.Dig("n").AsInt() == 12, "other-fields-untouched")
	if len(wantF) <= limit {
		vf.Assert(got == wantF, "short-field-untouched")
	} else {
		vf.Assert(len(got) <= len(wantF) && len(got) >= 0 && wantF[:len(got)] == got || k >= 3, "cut-field-is-a-prefix")
		vf.Reach("field-cut")
	}
}

// verifStrictJSON: RFC 8259 validity of one document (plain Go; the data it sees here is concrete).
func verifStrictJSON(b []byte) bool {
	i := 0
	ws := func() {
		for i < len(b) && (b[i] == ' ' || b[i] == '\t' || b[i] == '\n' || b[i] == '\r') {
			i++
		}
	}
	var value func(depth int) bool
	str := func() bool {
		if i >= len(b) || b[i] != '"' {
			return false
		}
		i++
		for i < len(b) {
			c := b[i]
			switch {
			case c == '"':
				i++
				return true
			case c < 0x20:
				return false
			case c == '\\':
				if i+1 >= len(b) {
					return false
				}
				e := b[i+1]
				if e == 'u' {
					if i+5 >= len(b) {
						return false
					}
					for k := 2; k < 6; k++ {
						h := b[i+k]
						if !(h >= '0' && h <= '9' || h >= 'a' && h <= 'f' || h >= 'A' && h <= 'F') {
							return false
						}
					}
					i += 6
				} else if e == '"' || e == '\\' || e == '/' || e == 'b' || e == 'f' || e == 'n' || e == 'r' || e == 't' {
					i += 2
				} else {
					return false
				}
			default:
				i++
			}
		}
		return false
	}
	value = func(depth int) bool {
		ws()
		if i >= len(b) || depth > 8 {
			return false
		}
		switch c := b[i]; {
		case c == '"':
			return str()
		case c == '{':
			i++
			ws()
			if i < len(b) && b[i] == '}' {
				i++
				return true
			}
			for {
				ws()
				if !str() {
					return false
				}
				ws()
				if i >= len(b) || b[i] != ':' {
					return false
				}
				i++
				if !value(depth + 1) {
					return false
				}
				ws()
				if i < len(b) && b[i] == ',' {
					i++
					continue
				}
				if i < len(b) && b[i] == '}' {
					i++
					return true
				}
				return false
			}
		case c == '[':
			i++
			ws()
			if i < len(b) && b[i] == ']' {
				i++
				return true
			}
			for {
				if !value(depth + 1) {
					return false
				}
				ws()
				if i < len(b) && b[i] == ',' {
					i++
					continue
				}
				if i < len(b) && b[i] == ']' {
					i++
					return true
				}
				return false
			}
		case c == '-' || c >= '0' && c <= '9':
			st := i
			if c == '-' {
				i++
			}
			for i < len(b) && (b[i] >= '0' && b[i] <= '9' || b[i] == '.' || b[i] == 'e' || b[i] == 'E' || b[i] == '+' || b[i] == '-') {
				i++
			}
			return i > st && b[i-1] >= '0' && b[i-1] <= '9'
		default:
			for _, lit := range []string{"true", "false", "null"} {
				if i+len(lit) <= len(b) && string(b[i:i+len(lit)]) == lit {
					i += len(lit)
					return true
				}
			}
			return false
		}
	}
	if !value(0) {
		return false
	}
	ws()
	return i == len(b)
}

// C12: RFC 5424 fidelity: a well-formed line built from parts (structured-data values with spaces,
// '=' and escaped quotes inside the quotes) decodes to exactly those parts.
func VerifH_C12_syslog5424Fidelity() {
	values := []string{`3`, `a=b`, `x=`, `a b`, `u?p=1&q=2`, `q\"r`, `e\]f`} // RFC 5424: '"', '\' and ']' are escaped inside a value
	hosts := []string{"host", "-"}
	v1 := values[vf.Choose("value1", len(values))]
	nparams := 1 + vf.Choose("params", 2)
	sd := `[ex@1 k1="` + v1 + `"`
	v2 := ""
	if nparams == 2 {
		v2 = values[vf.Choose("value2", len(values))]
		sd += ` k2="` + v2 + `"`
	}
	sd += `]`
	if vf.Choose("no-sd", 4) == 3 {
		sd = "-"
	}
	host := hosts[vf.Choose("host", 2)]
	msg := []string{"an event", ""}[vf.Choose("message", 2)]
	line := `<165>1 2003-10-11T22:14:15.003Z ` + host + ` app 10 ID47 ` + sd
	if msg != "" {
		line += " " + msg
	}
	d := &syslogRFC5424Decoder{params: syslogParams{facilityFormat: spfNumber, severityFormat: spfNumber}}
	rowAny, err := d.Decode([]byte(line))
	if vf.Param("twin", 0) == 1 {
		vf.Assert(err != nil, "syslog5424-valid-line-decodes")
		return
	}
	vf.Assert(err == nil, "syslog5424-valid-line-decodes")
	if err != nil {
		return
	}
	row := rowAny.(SyslogRFC5424Row)
	vf.Assert(string(row.AppName) == "app" && string(row.ProcID) == "10" && string(row.MsgID) == "ID47" && string(row.Message) == msg, "syslog5424-header-and-message")
	if sd != "-" {
		ps := row.StructuredData["ex@1"]
		ok := ps != nil && string(ps["k1"]) == v1 && len(ps) == nparams
		if nparams == 2 {
			ok = ok && string(ps["k2"]) == v2
		}
		vf.Assert(ok, "syslog5424-structured-data-as-written")
		vf.Reach("sd-decoded")
	}
}

// C12: several json_max_fields_size limits, several documents through the SAME decoder: every document
// is cut on its own (no cut position of an earlier document is applied to a later one).
func VerifH_C12_jsonMaxFieldsSequence() {
	d := &jsonDecoder{params: jsonParams{maxFieldsSize: map[string]int{"f": 3, "g": 2}}, cutPositions: make([]jsonCutPos, 0, 2), mu: &sync.Mutex{}} // as NewJsonDecoder builds it
	docs := []struct{ doc, f, g string }{
		{`{"f":"abcdef","g":"x","h":1}`, "abc", "x"},       // one cut
		{`{"f":"ab","g":"y","h":2}`, "ab", "y"},            // no cut
		{`{"h":3}`, "", ""},                                // short, no limited field
		{`{"f":"abcdef","g":"uvwxyz","h":4}`, "abc", "uv"}, // two cuts
		{`{"g":"uvw","f":"a","h":5}`, "a", "uv"},           // one cut, other order
	}
	n := 2 + vf.Choose("documents", vf.Param("D", 2))
	for i := 0; i < n; i++ {
		k := vf.Choose("document", len(docs))
		buf := append([]byte(docs[k].doc), "XY"...)
		line := buf[:len(docs[k].doc):len(buf)]
		root := insaneJSON.Spawn()
		err := d.DecodeToJson(root, line)
		if vf.Param("twin", 0) == 1 {
			vf.Assert(err != nil, "twin")
			return
		}
		vf.Assert(err == nil, "limited-document-is-valid-json")
		vf.Assert(string(buf[len(docs[k].doc):]) == "XY", "no-write-past-the-line")
		if err != nil {
			return
		}
		vf.Assert(root.Dig("f").AsString() == docs[k].f && root.Dig("g").AsString() == docs[k].g, "fields-cut-to-their-own-limits")
		vf.Assert(root.Dig("h").AsInt() == i*0+[]int{1, 2, 3, 4, 5}[k], "other-fields-untouched")
	}
	vf.Reach("sequence-decoded")
}

// C12.H9: Pipeline.In calls one decoder object from every input goroutine at once (k8s, http and file inputs
// have several), without a lock unless the decoder takes one itself: decoding must not write to the decoder.
// The engine counts the stores into memory reachable from the decoder while it decodes.
func VerifH_C12_decodersSharedReadOnly() {
	types := []Type{JSON, NGINX_ERROR, SYSLOG_RFC3164, SYSLOG_RFC5424, CSV}
	lines := [][]string{
		{`{"a":1,"b":"x"}` + "\n", `{"c":[1,2]}` + "\n", "not json\n"},
		{"2022/08/17 10:49:27 [error] 1#2: *3 msg\n", "garbage\n"},
		{"<34>Oct 11 22:14:15 mymachine.example.com myproc[10]: failed\n", "garbage\n"},
		{"<165>1 2003-10-11T22:14:15.003Z host app - ID47 [ex@1 k=\"v\"] msg\n", "garbage\n"},
		{"a,b,c\n", "x,\"y z\",\n", "q\"r\n"},
	}
	ti := vf.Choose("decoder", len(types))
	dec, err := New(types[ti], nil)
	if err != nil || dec == nil {
		vf.Fail("decoder-construction")
		return
	}
	for round := 0; round < 2; round++ {
		ls := lines[ti]
		line := []byte(ls[vf.Choose("line", len(ls))])
		root := insaneJSON.Spawn()
		_ = root.DecodeString("{}")
		writes := vf.SharedWrites(dec, func() { _ = dec.DecodeToJson(root, line) })
		if vf.Param("twin", 0) == 1 {
			vf.Assert(writes != 0, "decoding-does-not-write-to-the-shared-decoder")
			return
		}
		vf.Assert(writes == 0, "decoding-does-not-write-to-the-shared-decoder")
		insaneJSON.Release(root)
	}
	vf.Reach("decoders-read-only")
}
