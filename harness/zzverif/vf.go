// Package zzverif is the harness-facing nondeterminism API.
//
// Under the gosym engine the functions marked "intercepted" never run: the
// engine recognises them by name and supplies symbolic values. Compiled
// natively (replay), they read a model JSON named by VERIF_MODEL, so that a
// solver assignment replays as an ordinary Go test.
package zzverif

import (
	"encoding/json"
	"fmt"
	"os"
	"reflect"
	"strings"
	"sync"
)

var (
	once     sync.Once
	inputs   map[string]uint64
	params   map[string]int
	counts   = map[string]int{}
	mu       sync.Mutex
	Failures []string
	Observed []string
)

type modelFile struct {
	Inputs map[string]uint64 `json:"inputs"`
	Params map[string]int    `json:"params"`
}

func load() {
	once.Do(func() {
		inputs = map[string]uint64{}
		params = map[string]int{}
		p := os.Getenv("VERIF_MODEL")
		if p == "" {
			return
		}
		data, err := os.ReadFile(p)
		if err != nil {
			panic(err)
		}
		var m modelFile
		if err := json.Unmarshal(data, &m); err != nil {
			panic(err)
		}
		if m.Inputs != nil {
			inputs = m.Inputs
		}
		if m.Params != nil {
			params = m.Params
		}
	})
}

// Reset clears per-run counters (native replay of several models in one process).
func Reset(in map[string]uint64, pr map[string]int) {
	load()
	mu.Lock()
	defer mu.Unlock()
	inputs, params = in, pr
	if inputs == nil {
		inputs = map[string]uint64{}
	}
	if params == nil {
		params = map[string]int{}
	}
	counts = map[string]int{}
	Failures = nil
	Observed = nil
}

func next(name string) uint64 {
	load()
	mu.Lock()
	defer mu.Unlock()
	k := counts[name]
	counts[name] = k + 1
	return inputs[fmt.Sprintf("%s#%d", name, k)]
}

// Symbolic reports whether the code runs under the symbolic engine. (intercepted)
func Symbolic() bool { return false }

// Int returns an arbitrary int in [lo, hi]. (intercepted)
func Int(name string, lo, hi int) int { return int(int64(next(name))) }

// Int64 returns an arbitrary int64 in [lo, hi]. (intercepted)
func Int64(name string, lo, hi int64) int64 { return int64(next(name)) }

// Uint64 returns an arbitrary uint64. (intercepted)
func Uint64(name string) uint64 { return next(name) }

// Uint32 returns an arbitrary uint32. (intercepted)
func Uint32(name string) uint32 { return uint32(next(name)) }

// Uint16 returns an arbitrary uint16. (intercepted)
func Uint16(name string) uint16 { return uint16(next(name)) }

// Byte returns an arbitrary byte. (intercepted)
func Byte(name string) byte { return byte(next(name)) }

// Bool returns an arbitrary bool. (intercepted)
func Bool(name string) bool { return next(name) != 0 }

// Bytes returns n arbitrary bytes. (intercepted)
func Bytes(name string, n int) []byte {
	b := make([]byte, n)
	for i := range b {
		b[i] = byte(next(fmt.Sprintf("%s[%d]", name, i)))
	}
	return b
}

// Choose returns an arbitrary value in 0..n-1; the engine case-splits. (intercepted)
func Choose(name string, n int) int { return int(next(name)) }

// Param returns a bound configured in the check specification. (intercepted)
func Param(name string, def int) int {
	load()
	if v, ok := params[name]; ok {
		return v
	}
	return def
}

// Assume restricts the inputs considered. (intercepted)
func Assume(c bool) {
	if !c {
		panic("VERIF-ASSUME-FALSE: the replayed model violates an assumption")
	}
}

// Assert states the property. (intercepted)
func Assert(c bool, label string) {
	if !c {
		mu.Lock()
		Failures = append(Failures, label)
		mu.Unlock()
		fmt.Printf("VERIF-ASSERT-FAILED %s\n", label)
	}
}

// Fail is Assert(false, label). (intercepted)
func Fail(label string) { Assert(false, label) }

// Reach marks a scenario the harness must be able to reach. (intercepted)
func Reach(label string) {}

// Observe records values for comparison between engine and native run. (intercepted)
func Observe(label string, v ...any) {
	var parts []string
	for _, x := range v {
		switch y := x.(type) {
		case []byte:
			parts = append(parts, fmt.Sprintf("%q", string(y)))
		case string:
			parts = append(parts, fmt.Sprintf("%q", y))
		case bool:
			parts = append(parts, fmt.Sprint(y))
		case int:
			parts = append(parts, fmt.Sprint(uint64(y)))
		case int64:
			parts = append(parts, fmt.Sprint(uint64(y)))
		case uint64:
			parts = append(parts, fmt.Sprint(y))
		case byte:
			parts = append(parts, fmt.Sprint(uint64(y)))
		default:
			if rv := reflect.ValueOf(x); rv.IsValid() && rv.Kind() == reflect.Slice && rv.Len() == 0 {
				parts = append(parts, "\"\"")
			} else {
				parts = append(parts, fmt.Sprint(y))
			}
		}
	}
	mu.Lock()
	Observed = append(Observed, label+"="+strings.Join(parts, ","))
	mu.Unlock()
}

// Quiesce blocks the caller until nothing but timer-driven goroutines has run for `ms`
// milliseconds of logical time. (intercepted)
func Quiesce(ms int) {}

// Yield is an explicit scheduling point. (intercepted)
func Yield() {}

// Atomic runs f without scheduling points. (intercepted)
func Atomic(f func()) { f() }

// SharedWrites runs f and returns how many stores hit memory that was reachable from root before f
// started (fields, slice elements, map entries, transitively). Natively it runs f and returns 0. (intercepted)
// It turns "this object is shared by several goroutines without a lock, so using it must not write to it"
// into an assertion that needs no interleaving.
func SharedWrites(root any, f func()) int {
	f()
	return 0
}

// Now returns the logical clock in ns. (intercepted)
func Now() int64 { return 0 }

// Advance moves the logical clock forward. (intercepted)
func Advance(d int64) {}

// Catch runs f and reports whether it panicked (ordinary Go; interpreted by the engine).
func Catch(f func()) (panicked bool) {
	defer func() {
		if r := recover(); r != nil {
			panicked = true
		}
	}()
	f()
	return false
}

// SameBytes compares two byte slices (ordinary Go).
func SameBytes(a, b []byte) bool {
	if len(a) != len(b) {
		return false
	}
	for i := range a {
		if a[i] != b[i] {
			return false
		}
	}
	return true
}

// B2I converts a bool to 0/1.
func B2I(b bool) int {
	if b {
		return 1
	}
	return 0
}

// And / Or / Implies combine conditions without short-circuit branching. (intercepted)
func And(a, b bool) bool     { return a && b }
func Or(a, b bool) bool      { return a || b }
func Implies(a, b bool) bool { return !a || b }
