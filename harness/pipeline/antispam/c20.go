package antispam

import (
	"time"

	"github.com/ozontech/file.d/cfg/matchrule"
	"github.com/ozontech/file.d/pipeline/doif"
	"github.com/prometheus/client_golang/prometheus"
	"go.uber.org/zap"

	"github.com/ozontech/file.d/metric"
	vf "github.com/ozontech/file.d/zzverif"
)

func verifNew(o *Options) *Antispammer {
	if vf.Symbolic() {
		return &Antispammer{unbanIterations: o.UnbanIterations, threshold: o.Threshold, maintenanceInterval: o.MaintenanceInterval,
			sources: map[string]source{}, sourcesThresholds: map[string]int{}, exceptions: o.Exceptions, rules: o.Rules}
	}
	o.Logger = zap.NewNop()
	o.MetricsController = metric.NewCtl("verif", prometheus.NewRegistry(), time.Minute, 0)
	return NewAntispammer(o)
}

const verifInterval = time.Second

// exceptions: first one looks at the source name, second at the event content
func verifExceptions() Exceptions {
	ex := Exceptions{
		{RuleSet: matchrule.RuleSet{Name: "by-name", Rules: []matchrule.Rule{{Values: []string{"zz"}, Mode: matchrule.ModePrefix}}}, CheckSourceName: true},
		{RuleSet: matchrule.RuleSet{Name: "by-content", Rules: []matchrule.Rule{{Values: []string{"x"}, Mode: matchrule.ModeContains}}}},
	}
	for i := range ex {
		ex[i].Prepare()
	}
	return ex
}

func verifContains(b []byte, c byte) bool {
	for _, x := range b {
		if x == c {
			return true
		}
	}
	return false
}

// C20.H3: free sequences of events / maintenance rounds on two sources.
func VerifH_C20_antispamSeq() {
	K := vf.Param("K", 5)
	thr := []int{-1, 0, 1, 2, 3}[vf.Choose("threshold", 5)]
	unban := 1 + vf.Choose("unban", 2)
	withExc := vf.Choose("exceptions", 2) == 1
	twin := vf.Param("twin", 0) == 1
	o := &Options{MaintenanceInterval: verifInterval, Threshold: thr, UnbanIterations: unban}
	if withExc {
		o.Exceptions = verifExceptions()
	}
	a := verifNew(o)
	now := time.Unix(1700000000, 0)
	names := []string{"a", "b"}
	since := map[string]int{}    // events counted for the source since the previous maintenance round
	wasSpam := map[string]bool{} // result of the source's previous event
	for step := 0; step < K; step++ {
		// one of: maintenance | a now | a after a long pause | a flagged new | b now | b flagged new
		opt := vf.Choose("step", 6)
		if opt == 0 {
			a.Maintenance()
			since = map[string]int{}
			continue
		}
		src := names[0]
		if opt >= 4 {
			src = names[1]
		}
		if opt == 2 {
			now = now.Add(2 * verifInterval)
		}
		isNew := opt == 3 || opt == 5
		ev := []byte{vf.Byte("ev")}
		spam := a.IsSpam(src, src, isNew, ev, now, nil)
		if twin {
			vf.Assert(spam, "twin")
			continue
		}
		excepted := withExc && verifContains(ev, 'x')
		switch {
		case thr == -1:
			vf.Assert(!spam, "disabled-never-drops")
		case excepted:
			vf.Assert(!spam, "exception-never-drops")
			vf.Reach("exception-matched")
		case thr == 0:
			vf.Assert(spam, "blocked-threshold-drops")
		case isNew:
			vf.Assert(!spam, "new-source-not-dropped")
		default:
			since[src]++
			if spam && !wasSpam[src] {
				// freshly banned: at least threshold events since the previous maintenance round
				vf.Assert(since[src] >= thr, "ban-needs-threshold-events")
				vf.Reach("banned")
			}
		}
		if !excepted && thr > 0 {
			wasSpam[src] = spam
			if isNew {
				wasSpam[src] = false
			}
		}
	}
}

// C20.H3b: a banned source that falls silent is unbanned within unban_iterations+1 rounds,
// whatever it sent while banned; thresholds from the global setting or from a rule.
func VerifH_C20_antispamUnban() {
	global := 3 + vf.Choose("global", 2)
	unban := 1 + vf.Choose("unban", 2)
	viaRule := vf.Choose("via-rule", 2) == 1
	extra := vf.Choose("extra", vf.Param("X", 4)+1)
	o := &Options{MaintenanceInterval: verifInterval, Threshold: global, UnbanIterations: unban}
	thr := global
	if viaRule {
		thr = 2
		chk, err := doif.NewFromMap(map[string]any{"op": "equal", "field": "source_name", "values": []any{"a"}})
		if err != nil {
			vf.Fail("rule-construction")
			return
		}
		o.Rules = Rules{{Name: "r", Threshold: thr, DoIfChecker: chk}}
	}
	a := verifNew(o)
	now := time.Unix(1700000000, 0)
	ev := []byte("e")
	last := false
	for i := 0; i < thr; i++ {
		last = a.IsSpam("a", "a", false, ev, now, nil)
	}
	vf.Assert(last, "banned-at-threshold")
	for i := 0; i < extra; i++ {
		vf.Assert(a.IsSpam("a", "a", false, ev, now, nil), "stays-banned-while-sending")
	}
	// silence: unban_iterations+1 maintenance rounds
	for i := 0; i < unban+1; i++ {
		a.Maintenance()
	}
	now = now.Add(10 * verifInterval)
	spam := a.IsSpam("a", "a", false, ev, now, nil)
	if vf.Param("twin", 0) == 1 {
		vf.Assert(spam, "unbanned-after-silence")
		return
	}
	vf.Assert(!spam, "unbanned-after-silence")
	vf.Reach("unban-checked")
}

// C20.H3c: antispam rules: the FIRST matching rule decides (its threshold, or its blocked /
// unlimited verdict); later rules that also match do not override it.
func VerifH_C20_antispamFirstRuleWins() {
	mk := func(values ...any) *doif.Checker {
		chk, err := doif.NewFromMap(map[string]any{"op": "equal", "field": "source_name", "values": values})
		if err != nil {
			vf.Fail("rule-construction")
		}
		return chk
	}
	first := []int{2, 3, thresholdBlocked, thresholdUnlimited}[vf.Choose("first-rule", 4)]
	second := []int{1, 4, thresholdBlocked, thresholdUnlimited}[vf.Choose("second-rule", 4)]
	// source "a" matches both rules, source "b" only the second one
	o := &Options{MaintenanceInterval: verifInterval, Threshold: 10, UnbanIterations: 1,
		Rules: Rules{{Name: "first", Threshold: first, DoIfChecker: mk("a")}, {Name: "second", Threshold: second, DoIfChecker: mk("a", "b")}}}
	a := verifNew(o)
	now := time.Unix(1700000000, 0)
	src := []string{"a", "b"}[vf.Choose("source", 2)]
	thr := first
	if src == "b" {
		thr = second
	}
	for i := 1; i <= vf.Param("K", 4); i++ {
		spam := a.IsSpam(src, src, false, []byte("e"), now, nil)
		want := false
		switch thr {
		case thresholdBlocked:
			want = true
		case thresholdUnlimited:
			want = false
		default:
			want = i >= thr
		}
		if vf.Param("twin", 0) == 1 {
			vf.Assert(spam != want, "first-matching-rule-decides")
			continue
		}
		vf.Assert(spam == want, "first-matching-rule-decides")
		if spam {
			vf.Reach("refused")
		}
	}
}

// for the pipeline-level harness (the struct's fields are unexported)
func VerifNewAntispammer(o *Options) *Antispammer { return verifNew(o) }

// C20.H3e: rules on metadata: a record WITHOUT the metadata key is "null" for the rule (matches a rule
// on null, does not match a rule on the empty string), a record with the key matches by its value.
func VerifH_C20_antispamMetaRule() {
	mk := func(values ...any) *doif.Checker {
		chk, err := doif.NewFromMap(map[string]any{"op": "equal", "field": "meta.pod", "values": values})
		if err != nil {
			vf.Fail("rule-construction")
		}
		return chk
	}
	ruleOnNull := vf.Choose("rule-on", 2) == 0
	var meta map[string]string
	metaKind := vf.Choose("meta", 3)
	switch metaKind {
	case 1:
		meta = map[string]string{"pod": ""}
	case 2:
		meta = map[string]string{"pod": "p1", "ns": "x"}
	}
	// the rule lets its records through without limit; everything else falls under the global threshold 2
	var o *Options
	if ruleOnNull {
		o = &Options{MaintenanceInterval: verifInterval, Threshold: 2, UnbanIterations: 1, Rules: Rules{{Name: "no-pod", Threshold: thresholdUnlimited, DoIfChecker: mk(nil)}}}
	} else {
		o = &Options{MaintenanceInterval: verifInterval, Threshold: 2, UnbanIterations: 1, Rules: Rules{{Name: "empty-pod", Threshold: thresholdUnlimited, DoIfChecker: mk("")}}}
	}
	a := verifNew(o)
	now := time.Unix(1700000000, 0)
	matches := (ruleOnNull && metaKind == 0) || (!ruleOnNull && metaKind == 1)
	for i := 1; i <= 4; i++ {
		spam := a.IsSpam("s", "s", false, []byte("e"), now, meta)
		want := !matches && i >= 2
		if vf.Param("twin", 0) == 1 {
			vf.Assert(spam != want, "meta-rule-decides-by-presence-and-value")
			continue
		}
		vf.Assert(spam == want, "meta-rule-decides-by-presence-and-value")
	}
	vf.Reach("meta-rule-checked")
}
