package pipeline

import (
	"github.com/prometheus/client_golang/prometheus"
	"go.uber.org/zap"

	vf "github.com/ozontech/file.d/zzverif"
)

// verifShell builds a Pipeline just deep enough for the unit under test.
// Under the engine metrics and loggers are nil (their packages are no-op
// stubs); natively the real constructor is used.
func verifShell(s *Settings) *Pipeline {
	if vf.Symbolic() {
		return &Pipeline{settings: s}
	}
	if s.Metric == nil {
		s.Metric = &MetricSettings{}
	}
	if s.Capacity == 0 {
		s.Capacity = 4
	}
	if s.AvgEventSize == 0 {
		s.AvgEventSize = 64
	}
	if s.Decoder == "" {
		s.Decoder = "raw"
	}
	return New("verif", s, prometheus.NewRegistry(), zap.NewNop())
}

// C20.H1: checkInputBytes — empty / oversize / cut-off handling, for every
// record of length 0..N, every limit 0..N+1, both cut-off settings.
func VerifH_C20_checkInputBytes() {
	maxN := vf.Param("N", 5)
	n := vf.Choose("len", maxN+1)
	buf := vf.Bytes("buf", n+2) // 2 guard bytes after the record
	before := append([]byte(nil), buf...)
	max := vf.Int("max", 0, maxN+1)
	cut := vf.Bool("cut")
	twin := vf.Param("twin", 0) == 1
	p := verifShell(&Settings{MaxEventSize: max, CutOffEventByLimit: cut})
	out, wasCut, ok := p.checkInputBytes(buf[:n:n+2], "src", nil)

	empty := n == 0 || (n == 1 && before[0] == '\n')
	over := max != 0 && n > max
	vf.Observe("result", ok, wasCut, len(out))
	if twin {
		vf.Assert(ok == (!empty && !over), "refused-iff")
		return
	}
	vf.Assert(ok == (!empty && (!over || cut)), "refused-iff")
	if ok && !over {
		vf.Assert(!wasCut, "within-limit-not-marked")
		vf.Assert(len(out) == n && vf.SameBytes(out, before[:n]), "within-limit-untouched")
		vf.Assert(vf.SameBytes(buf, before), "within-limit-buffer-untouched")
	}
	if ok && over {
		nl := before[n-1] == '\n'
		vf.Assert(wasCut, "cut-marked")
		vf.Assert(len(out) == max+vf.B2I(nl), "cut-length")
		vf.Assert(vf.SameBytes(out[:max], before[:max]), "cut-content")
		if nl {
			vf.Assert(out[max] == '\n', "cut-keeps-newline")
			vf.Reach("cut-with-newline")
		} else {
			vf.Reach("cut-without-newline")
		}
	}
	if !ok {
		vf.Assert(vf.SameBytes(buf, before), "refused-buffer-untouched")
	}
	// nothing outside the caller's record is written
	vf.Assert(vf.SameBytes(buf[n:], before[n:]), "no-write-past-record")
}
