package doif

import (
	"strconv"
	"time"

	insaneJSON "github.com/ozontech/insane-json"

	vf "github.com/ozontech/file.d/zzverif"
)

type verifData struct{ b []byte }

func (d verifData) Get(...string) []byte { return d.b }

func verifLower(c byte) byte {
	if c >= 'A' && c <= 'Z' {
		return c + 32
	}
	return c
}

// term-level byte comparisons (no short-circuit branching)
func verifEqAt(data []byte, off int, v []byte, fold bool) bool {
	ok := true
	for i := range v {
		a, b := data[off+i], v[i]
		if fold {
			a, b = verifLower(a), verifLower(b)
		}
		ok = vf.And(ok, a == b)
	}
	return ok
}

func verifContainsRef(data, v []byte, fold bool) bool {
	found := false
	for off := 0; off+len(v) <= len(data); off++ {
		found = vf.Or(found, verifEqAt(data, off, v, fold))
	}
	return found
}

func verifBytes(name string, maxLen int, allowNil bool) []byte {
	k := vf.Choose(name+"-len", maxLen+1+vf.B2I(allowNil))
	if k == maxLen+1 {
		return nil
	}
	b := vf.Bytes(name, k)
	for _, c := range b {
		vf.Assume(c < 0x80)
	}
	if b == nil {
		b = []byte{}
	}
	return b
}

// C14.H1: field operators against their textbook definitions.
func VerifH_C14_fieldOps() {
	ops := []string{"equal", "contains", "contains_any", "prefix", "suffix"}
	op := ops[vf.Choose("op", len(ops))]
	caseSensitive := vf.Choose("case-sensitive", 2) == 1
	fold := !caseSensitive
	nvals := 1 + vf.Choose("nvals", vf.Param("V", 2))
	if op == "contains_any" {
		nvals = 1
	}
	values := make([][]byte, nvals)
	for i := range values {
		values[i] = verifBytes("value", vf.Param("VL", 2), op == "equal")
		if op == "contains_any" && len(values[i]) == 0 {
			return // rejected by the constructor
		}
	}
	data := verifBytes("data", vf.Param("DL", 3), true)
	node, err := NewFieldOpNode(op, "f", caseSensitive, values)
	if err != nil {
		vf.Fail("constructor-rejects-valid-rule")
		return
	}
	got := node.Check(verifData{data})

	want := false
	for _, v := range values {
		m := false
		switch op {
		case "equal":
			if (data == nil) == (v == nil) && len(data) == len(v) {
				m = verifEqAt(data, 0, v, fold)
			}
		case "contains":
			m = verifContainsRef(data, v, fold)
		case "contains_any":
			for _, c := range v {
				m = vf.Or(m, verifContainsRef(data, []byte{c}, fold))
			}
		case "prefix":
			if len(data) >= len(v) {
				m = verifEqAt(data, 0, v, fold)
			}
		case "suffix":
			if len(data) >= len(v) {
				m = verifEqAt(data, len(data)-len(v), v, fold)
			}
		}
		want = vf.Or(want, m)
	}
	if vf.Param("twin", 0) == 1 {
		vf.Assert(got != want, "field-op-semantics")
		return
	}
	vf.Assert(got == want, "field-op-semantics")
	if got {
		vf.Reach("matched")
	}
}

// stub leaf node returning a symbolic bool; records that it was evaluated
type verifLeaf struct {
	val   bool
	evals *int
}

func (l *verifLeaf) Type() NodeType            { return NodeFieldOp }
func (l *verifLeaf) Check(Data) bool           { *l.evals++; return l.val }
func (l *verifLeaf) isEqualTo(Node, int) error { return nil }

// C14.H2: logical nodes equal the boolean formula, independent of short cuts.
func VerifH_C14_logical() {
	evals := 0
	leaf := func() Node { return &verifLeaf{val: vf.Bool("leaf"), evals: &evals} }
	build := func(depth int) (Node, bool) { return nil, false }
	var rec func(depth int) (Node, bool)
	rec = func(depth int) (Node, bool) {
		kind := 0
		if depth > 0 {
			kind = vf.Choose("node", 4) // leaf, and, or, not
		}
		switch kind {
		case 0:
			l := leaf().(*verifLeaf)
			return l, l.val
		case 3:
			c, cv := rec(depth - 1)
			n, err := NewLogicalNode("not", []Node{c})
			if err != nil {
				vf.Fail("not-constructor")
			}
			return n, !cv
		default:
			k := 1 + vf.Choose("operands", vf.Param("O", 3))
			ops := make([]Node, k)
			acc := kind == 1
			for i := range ops {
				var v bool
				ops[i], v = rec(depth - 1)
				if kind == 1 {
					acc = vf.And(acc, v)
				} else {
					acc = vf.Or(acc, v)
				}
			}
			name := "and"
			if kind == 2 {
				name = "or"
			}
			n, err := NewLogicalNode(name, ops)
			if err != nil {
				vf.Fail("logical-constructor")
			}
			return n, acc
		}
	}
	_ = build
	root, want := rec(vf.Param("D", 2))
	got := root.Check(verifData{})
	if vf.Param("twin", 0) == 1 {
		vf.Assert(got != want, "logical-formula")
		return
	}
	vf.Assert(got == want, "logical-formula")
	vf.Reach("evaluated")
}

// C14.H4: length / integer / type predicates on the real JSON tree against reference values
// known by construction of the document.
func VerifH_C14_lenType() {
	root := insaneJSON.Spawn()
	defer insaneJSON.Release(root)
	shape := vf.Choose("shape", 7)
	var doc []byte
	typ := "nil"  // reference type of f
	byteLen := -1 // reference size of f's serialised value (strings: unquoted content)
	arrLen := -1
	intOK := false
	intVal := 0
	switch shape {
	case 0:
		doc = []byte(`{"g":1}`)
	case 1, 2: // string / number of symbolic characters
		k := vf.Choose("len", vf.Param("SL", 3)+1)
		if shape == 2 && k == 0 {
			return
		}
		s := vf.Bytes("chars", k)
		for _, c := range s {
			if shape == 1 {
				vf.Assume(vf.Or(vf.And(c >= '0', c <= '9'), vf.Or(c == '-', c == 'a')))
			}
		}
		// reference integer reading: -?[0-9]+ without superfluous leading zero
		neg := k > 0 && s[0] == '-'
		digs := s
		if neg {
			digs = s[1:]
		}
		valid := len(digs) > 0
		for _, c := range digs {
			if c < '0' || c > '9' {
				valid = false
			}
		}
		if valid && len(digs) > 1 && digs[0] == '0' {
			return // "007": outside the claim
		}
		if valid && neg && digs[0] == '0' {
			return // "-0": outside the claim
		}
		if shape == 2 && !valid {
			return // not a JSON number
		}
		if valid {
			for _, c := range digs {
				intVal = intVal*10 + int(c-'0')
			}
			if neg {
				intVal = -intVal
			}
			intOK = true
		}
		if shape == 1 {
			typ = "string"
			doc = append(append([]byte(`{"f":"`), s...), `"}`...)
		} else {
			typ = "number"
			doc = append(append([]byte(`{"f":`), s...), `}`...)
		}
		byteLen = k
	case 3:
		n := vf.Choose("elems", 4)
		doc = []byte(`{"f":[`)
		byteLen = 2
		for i := 0; i < n; i++ {
			if i > 0 {
				doc = append(doc, ',')
				byteLen++
			}
			if vf.Choose("elem", 2) == 0 {
				doc = append(doc, `12`...)
				byteLen += 2
			} else {
				doc = append(doc, `"ab"`...)
				byteLen += 4
			}
		}
		doc = append(doc, `]}`...)
		typ, arrLen = "array", n
	case 4:
		objs := []string{`{}`, `{"k":"v"}`, `{"k":"v","n":[1]}`, `{"k":{}}`, `{"k":"a\nb"}`, `{"n":["q\"x",{"u":"\u00e9"}]}`}
		o := objs[vf.Choose("object", len(objs))]
		doc = []byte(`{"f":` + o + `}`)
		typ, byteLen = "object", len(o)
	case 5:
		doc = []byte(`{"f":null}`)
		typ, byteLen = "null", 4
	case 6:
		doc = []byte(`{"f":true}`)
		typ, byteLen = "bool", 4
	}
	if err := root.DecodeBytes(doc); err != nil {
		vf.Fail("document-decodes")
		return
	}
	data := NewEventData(root)

	if vf.Choose("family", 2) == 0 {
		ops := []string{"byte_len_cmp", "array_len_cmp", "int_val_cmp"}
		cmps := []string{"lt", "le", "gt", "ge", "eq", "ne"}
		oi, ci := vf.Choose("op", 3), vf.Choose("cmp", 6)
		cmpValue := vf.Int("cmp-value", 0, 1200) // negative values are rejected by the constructor
		node, err := NewLenCmpOpNode(ops[oi], "f", cmps[ci], cmpValue)
		if err != nil {
			vf.Fail("constructor-rejects-valid-rule")
			return
		}
		got := node.Check(data)
		have, lhs := false, 0
		switch oi {
		case 0:
			have, lhs = byteLen >= 0, byteLen
		case 1:
			have, lhs = arrLen >= 0, arrLen
		case 2:
			have, lhs = intOK, intVal
		}
		want := false
		if have {
			switch ci {
			case 0:
				want = lhs < cmpValue
			case 1:
				want = lhs <= cmpValue
			case 2:
				want = lhs > cmpValue
			case 3:
				want = lhs >= cmpValue
			case 4:
				want = lhs == cmpValue
			case 5:
				want = lhs != cmpValue
			}
		}
		if vf.Param("twin", 0) == 1 {
			vf.Assert(got != want, "len-cmp-semantics")
			return
		}
		vf.Assert(got == want, "len-cmp-semantics")
		if got {
			vf.Reach("len-matched")
		}
		return
	}
	// check_type with 1..2 type names (aliases included)
	names := []string{"obj", "object", "arr", "array", "num", "number", "str", "string", "null", "nil"}
	canon := []string{"object", "object", "array", "array", "number", "number", "string", "string", "null", "nil"}
	nv := 1 + vf.Choose("ntypes", 2)
	var values [][]byte
	want := false
	for i := 0; i < nv; i++ {
		t := vf.Choose("type", len(names))
		values = append(values, []byte(names[t]))
		if canon[t] == typ {
			want = true
		}
	}
	node, err := NewCheckTypeOpNode("f", values)
	if err != nil {
		vf.Fail("constructor-rejects-valid-rule")
		return
	}
	got := node.Check(data)
	if vf.Param("twin", 0) == 1 {
		vf.Assert(got != want, "check-type-semantics")
		return
	}
	vf.Assert(got == want, "check-type-semantics")
	if got {
		vf.Reach("type-matched")
	}
}

// C14.H5: the tree built from a rule description (NewFromMap) is the tree the description denotes:
// compared by the package's own structural equality with a tree built by direct constructor calls.
func VerifH_C14_ctor() {
	var gen func(depth int) (map[string]any, Node)
	gen = func(depth int) (map[string]any, Node) {
		n := 3
		if depth > 0 {
			n = 6
		}
		switch vf.Choose("kind", n) {
		case 0: // field op
			ops := []string{"equal", "contains", "prefix", "suffix"}
			op := ops[vf.Choose("fop", len(ops))]
			m := map[string]any{"op": op, "field": "a.b"}
			cs := true
			switch vf.Choose("case", 3) {
			case 1:
				m["case_sensitive"], cs = true, true
			case 2:
				m["case_sensitive"], cs = false, false
			}
			var vals [][]byte
			switch vf.Choose("vals", 4) {
			case 0:
				m["values"], vals = nil, [][]byte{nil}
			case 1:
				m["values"], vals = "x1", [][]byte{[]byte("x1")}
			case 2:
				m["values"], vals = []any{"x1", nil, "Yy"}, [][]byte{[]byte("x1"), nil, []byte("Yy")}
			case 3:
				m["values"], vals = []any{"Yy"}, [][]byte{[]byte("Yy")}
			}
			d, err := NewFieldOpNode(op, "a.b", cs, vals)
			if err != nil {
				vf.Fail("direct-constructor")
			}
			return m, d
		case 1: // length / int comparison
			ops := []string{"byte_len_cmp", "array_len_cmp", "int_val_cmp"}
			cmps := []string{"lt", "le", "gt", "ge", "eq", "ne"}
			op, cmp := ops[vf.Choose("lop", 3)], cmps[vf.Choose("cmp", 6)]
			v := vf.Choose("value", 3) * 7
			m := map[string]any{"op": op, "field": "f", "cmp_op": cmp}
			if vf.Choose("value-type", 2) == 0 {
				m["value"] = v
			} else {
				m["value"] = float64(v)
			}
			d, err := NewLenCmpOpNode(op, "f", cmp, v)
			if err != nil {
				vf.Fail("direct-constructor")
			}
			return m, d
		case 2: // check_type
			sets := [][]string{{"obj"}, {"arr", "number"}, {"str", "null", "nil"}}
			set := sets[vf.Choose("types", len(sets))]
			var anyVals []any
			var vals [][]byte
			for _, s := range set {
				anyVals = append(anyVals, s)
				vals = append(vals, []byte(s))
			}
			m := map[string]any{"op": "check_type", "field": "f", "values": anyVals}
			d, err := NewCheckTypeOpNode("f", vals)
			if err != nil {
				vf.Fail("direct-constructor")
			}
			return m, d
		case 5:
			cm, cd := gen(depth - 1)
			d, err := NewLogicalNode("not", []Node{cd})
			if err != nil {
				vf.Fail("direct-constructor")
			}
			return map[string]any{"op": "not", "operands": []any{cm}}, d
		default:
			name := []string{"and", "or"}[vf.Choose("logical", 2)]
			k := 1 + vf.Choose("operands", vf.Param("O", 2))
			var ms []any
			var ds []Node
			for i := 0; i < k; i++ {
				cm, cd := gen(depth - 1)
				ms, ds = append(ms, cm), append(ds, cd)
			}
			d, err := NewLogicalNode(name, ds)
			if err != nil {
				vf.Fail("direct-constructor")
			}
			return map[string]any{"op": name, "operands": ms}, d
		}
	}
	m, direct := gen(vf.Param("D", 1))
	c, err := NewFromMap(m)
	if err != nil {
		vf.Fail("constructor-rejects-valid-rule")
		return
	}
	same := c.IsEqualTo(newChecker(direct)) == nil
	if vf.Param("twin", 0) == 1 {
		vf.Assert(!same, "rule-tree-is-the-described-tree")
		return
	}
	vf.Assert(same, "rule-tree-is-the-described-tree")
	vf.Reach("built")
}

// C14.H6: timestamp comparison: field time (unix seconds) against a constant or "now" reference,
// with shift; the update interval widens only the "now" reference.
func VerifH_C14_tsCmp() {
	cmps := []string{"lt", "le", "gt", "ge", "eq", "ne"}
	ci := vf.Choose("cmp", 6)
	shiftS := []int64{-5, 0, 5}[vf.Choose("shift", 3)]
	interval := 10 * time.Second // what the rule constructor gives every mode by default
	nowMode := vf.Choose("now-mode", 2) == 1
	base := int64(1000)
	if nowMode {
		base = time.Now().Unix()
	}
	mode := "const"
	if nowMode {
		mode = "now"
	}
	node, err := NewTsCmpOpNode("ts", "unixtime", cmps[ci], mode, time.Unix(base, 0), time.Duration(shiftS)*time.Second, interval)
	if err != nil {
		vf.Fail("constructor-rejects-valid-rule")
		return
	}
	ref := base + shiftS
	if nowMode {
		ref += int64(interval / time.Second)
	}
	// the event's time: around the reference, exactly on it, far away; or not a time at all
	delta := []int64{-20, -10, -5, -1, 0, 1, 5, 10, 20}[vf.Choose("delta", 9)]
	ts := ref + delta
	docs := []string{`{"ts":"` + strconv.FormatInt(ts, 10) + `"}`, `{"ts":` + strconv.FormatInt(ts, 10) + `}`, `{"ts":"garbage"}`, `{"other":1}`}
	di := vf.Choose("doc", len(docs))
	root := insaneJSON.Spawn()
	defer insaneJSON.Release(root)
	if root.DecodeString(docs[di]) != nil {
		vf.Fail("document-decodes")
		return
	}
	got := node.Check(NewEventData(root))
	want := false
	if di == 0 {
		switch ci {
		case 0:
			want = delta < 0
		case 1:
			want = delta <= 0
		case 2:
			want = delta > 0
		case 3:
			want = delta >= 0
		case 4:
			want = delta == 0
		case 5:
			want = delta != 0
		}
	}
	if vf.Param("twin", 0) == 1 {
		vf.Assert(got != want, "ts-cmp-semantics")
		return
	}
	vf.Assert(got == want, "ts-cmp-semantics")
	if got {
		vf.Reach("ts-matched")
	}
}

// C14.H1b: field operators on multi-byte text: character sets are sets of characters, not of bytes.
func VerifH_C14_fieldOpsUnicode() {
	cases := []struct {
		op            string
		caseSensitive bool
		value, data   string
		want          bool
	}{
		{"contains_any", true, "«»", "5 °C", false}, // shares the byte 0xC2 with ° but no character
		{"contains_any", true, "«»", "say «hi»", true},
		{"contains_any", true, "ёЁ", "привет", false}, // other Cyrillic letters share the lead byte
		{"contains_any", true, "ёЁ", "ёлка", true},
		{"contains_any", true, "€!", "–", false},
		{"contains_any", true, "€!", "5 €", true},
		{"contains", true, "é", "café", false}, // composed vs decomposed: different bytes
		{"contains", true, "лк", "ёлка", true},
		{"prefix", true, "ёл", "ёлка", true},
		{"suffix", true, "ка", "ёлка", true},
		{"equal", true, "ёлка", "ёлка", true},
		{"equal", true, "ёлка", "елка", false},
		// case-insensitive rules on characters whose lower-case form has another length in UTF-8
		// (U+023A: 2 -> 3 bytes, KELVIN SIGN U+212A: 3 -> 1 byte)
		{"contains", false, "\u023ab", "\u023ab", true},
		{"contains", false, "\u023ab", "x\u023abz", true},
		{"prefix", false, "\u023ab", "\u023ab", true},
		{"suffix", false, "\u212a", "5\u212a", true},
		{"prefix", false, "\u212a", "\u212a5", true},
		{"contains", false, "\u212a", "5\u212a5", true},
		{"contains", false, "ЁЛ", "ёлка", true},
	}
	c := cases[vf.Choose("case", len(cases))]
	node, err := NewFieldOpNode(c.op, "f", c.caseSensitive, [][]byte{[]byte(c.value)})
	if err != nil {
		vf.Fail("constructor-rejects-valid-rule")
		return
	}
	got := node.Check(verifData{[]byte(c.data)})
	if vf.Param("twin", 0) == 1 {
		vf.Assert(got != c.want, "field-op-semantics-on-characters")
		return
	}
	vf.Assert(got == c.want, "field-op-semantics-on-characters")
	vf.Reach("unicode-case-checked")
}

// C14.H6: one rule tree (doif.Checker) is shared by all processors of a pipeline and evaluated without a
// lock, so "the verdict is a function of rule and event" includes: evaluating it does not write to the
// tree. The engine counts the stores that hit memory reachable from the tree while Check runs.
func VerifH_C14_checkerReadOnly() {
	fops := []string{"equal", "contains", "contains_any", "prefix", "suffix"}
	var leaves []Node
	mk := func(n Node, err error) {
		if err != nil {
			vf.Fail("constructor-rejects-valid-rule")
			return
		}
		leaves = append(leaves, n)
	}
	op := fops[vf.Choose("op", len(fops))]
	cs := vf.Choose("case-sensitive", 2) == 1
	mk(NewFieldOpNode(op, "f", cs, [][]byte{[]byte("Ab")}))
	switch vf.Choose("second-leaf", 4) {
	case 0:
		mk(NewLenCmpOpNode("byte_len_cmp", "f", "ge", 2))
	case 1:
		mk(NewLenCmpOpNode("array_len_cmp", "arr", "lt", 3))
	case 2:
		mk(NewCheckTypeOpNode("f", [][]byte{[]byte("string"), []byte("number")}))
	case 3:
		mk(NewTsCmpOpNode("ts", "unixtime", "lt", "const", time.Unix(1000, 0), 0, 10*time.Second))
	}
	if len(leaves) != 2 {
		return
	}
	tree, err := NewLogicalNode([]string{"and", "or"}[vf.Choose("logic", 2)], leaves)
	if err != nil {
		vf.Fail("constructor-rejects-valid-rule")
		return
	}
	if vf.Choose("negated", 2) == 1 {
		tree, err = NewLogicalNode("not", []Node{tree})
		if err != nil {
			vf.Fail("constructor-rejects-valid-rule")
			return
		}
	}
	docs := []string{`{"f":"xxABzz","arr":[1,2],"ts":"990"}`, `{"f":"ab","arr":[],"ts":1200}`, `{"f":7,"ts":"garbage"}`, `{"other":1}`, `{"f":"ABCDEFGHIJKLMNOPQRSTUVWXYZ abcdefghijklmnopqrstuvwxyz"}`}
	for round := 0; round < 2; round++ {
		root := insaneJSON.Spawn()
		if root.DecodeString(docs[vf.Choose("doc", len(docs))]) != nil {
			vf.Fail("bad-template")
			return
		}
		data := NewEventData(root)
		writes := vf.SharedWrites(tree, func() { tree.Check(data) })
		if vf.Param("twin", 0) == 1 {
			vf.Assert(writes != 0, "evaluating-a-rule-does-not-write-to-the-shared-rule-tree")
			return
		}
		vf.Assert(writes == 0, "evaluating-a-rule-does-not-write-to-the-shared-rule-tree")
		insaneJSON.Release(root)
	}
	vf.Reach("read-only-checked")
}
