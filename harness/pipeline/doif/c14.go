package doif

import (
	vf "github.com/ozontech/file.d/zzverif"
)

type verifData struct{ b []byte }

func (d verifData) Get(...string) []byte { return d.b }

func verifLower(c byte) byte {
	if c >= 'A' && c <= 'Z' {
		return c + 32
	}
	return c
}

// term-level byte comparisons (no short-circuit branching)
func verifEqAt(data []byte, off int, v []byte, fold bool) bool {
	ok := true
	for i := range v {
		a, b := data[off+i], v[i]
		if fold {
			a, b = verifLower(a), verifLower(b)
		}
		ok = vf.And(ok, a == b)
	}
	return ok
}

func verifContainsRef(data, v []byte, fold bool) bool {
	found := false
	for off := 0; off+len(v) <= len(data); off++ {
		found = vf.Or(found, verifEqAt(data, off, v, fold))
	}
	return found
}

func verifBytes(name string, maxLen int, allowNil bool) []byte {
	k := vf.Choose(name+"-len", maxLen+1+vf.B2I(allowNil))
	if k == maxLen+1 {
		return nil
	}
	b := vf.Bytes(name, k)
	for _, c := range b {
		vf.Assume(c < 0x80)
	}
	if b == nil {
		b = []byte{}
	}
	return b
}

// C14.H1: field operators against their textbook definitions.
func VerifH_C14_fieldOps() {
	ops := []string{"equal", "contains", "contains_any", "prefix", "suffix"}
	op := ops[vf.Choose("op", len(ops))]
	caseSensitive := vf.Choose("case-sensitive", 2) == 1
	fold := !caseSensitive
	nvals := 1 + vf.Choose("nvals", vf.Param("V", 2))
	if op == "contains_any" {
		nvals = 1
	}
	values := make([][]byte, nvals)
	for i := range values {
		values[i] = verifBytes("value", vf.Param("VL", 2), op == "equal")
		if op == "contains_any" && len(values[i]) == 0 {
			return // rejected by the constructor
		}
	}
	data := verifBytes("data", vf.Param("DL", 3), true)
	node, err := NewFieldOpNode(op, "f", caseSensitive, values)
	if err != nil {
		vf.Fail("constructor-rejects-valid-rule")
		return
	}
	got := node.Check(verifData{data})

	want := false
	for _, v := range values {
		m := false
		switch op {
		case "equal":
			if (data == nil) == (v == nil) && len(data) == len(v) {
				m = verifEqAt(data, 0, v, fold)
			}
		case "contains":
			m = verifContainsRef(data, v, fold)
		case "contains_any":
			for _, c := range v {
				m = vf.Or(m, verifContainsRef(data, []byte{c}, fold))
			}
		case "prefix":
			if len(data) >= len(v) {
				m = verifEqAt(data, 0, v, fold)
			}
		case "suffix":
			if len(data) >= len(v) {
				m = verifEqAt(data, len(data)-len(v), v, fold)
			}
		}
		want = vf.Or(want, m)
	}
	if vf.Param("twin", 0) == 1 {
		vf.Assert(got != want, "field-op-semantics")
		return
	}
	vf.Assert(got == want, "field-op-semantics")
	if got {
		vf.Reach("matched")
	}
}

// stub leaf node returning a symbolic bool; records that it was evaluated
type verifLeaf struct {
	val   bool
	evals *int
}

func (l *verifLeaf) Type() NodeType            { return NodeFieldOp }
func (l *verifLeaf) Check(Data) bool           { *l.evals++; return l.val }
func (l *verifLeaf) isEqualTo(Node, int) error { return nil }

// C14.H2: logical nodes equal the boolean formula, independent of short cuts.
func VerifH_C14_logical() {
	evals := 0
	leaf := func() Node { return &verifLeaf{val: vf.Bool("leaf"), evals: &evals} }
	build := func(depth int) (Node, bool) { return nil, false }
	var rec func(depth int) (Node, bool)
	rec = func(depth int) (Node, bool) {
		kind := 0
		if depth > 0 {
			kind = vf.Choose("node", 4) // leaf, and, or, not
		}
		switch kind {
		case 0:
			l := leaf().(*verifLeaf)
			return l, l.val
		case 3:
			c, cv := rec(depth - 1)
			n, err := NewLogicalNode("not", []Node{c})
			if err != nil {
				vf.Fail("not-constructor")
			}
			return n, !cv
		default:
			k := 1 + vf.Choose("operands", vf.Param("O", 3))
			ops := make([]Node, k)
			acc := kind == 1
			for i := range ops {
				var v bool
				ops[i], v = rec(depth - 1)
				if kind == 1 {
					acc = vf.And(acc, v)
				} else {
					acc = vf.Or(acc, v)
				}
			}
			name := "and"
			if kind == 2 {
				name = "or"
			}
			n, err := NewLogicalNode(name, ops)
			if err != nil {
				vf.Fail("logical-constructor")
			}
			return n, acc
		}
	}
	_ = build
	root, want := rec(vf.Param("D", 2))
	got := root.Check(verifData{})
	if vf.Param("twin", 0) == 1 {
		vf.Assert(got != want, "logical-formula")
		return
	}
	vf.Assert(got == want, "logical-formula")
	vf.Reach("evaluated")
}
