package pipeline

import (
	"time"

	vf "github.com/ozontech/file.d/zzverif"
)

// recording output controller
type verifOutCtl struct {
	committed []*Event
	sent      map[*Event]bool
	commits   map[*Event]int
}

func (c *verifOutCtl) Commit(e *Event) {
	// the property: only after the event's own send returned (parents of a split are never sent)
	if !e.IsChildParentKind() {
		vf.Assert(c.sent[e], "commit-only-after-own-send-returned")
	}
	c.commits[e]++
	c.committed = append(c.committed, e)
}
func (c *verifOutCtl) Error(err string) {}

const verifFlush = 200 * time.Millisecond

// C08.H1/H2/H3: the real Batcher (Add, work x W, heartbeat) under the symbolic scheduler.
func VerifH_C08_batcher() {
	W := vf.Param("WMIN", 1) + vf.Choose("workers", vf.Param("W", 2)+1-vf.Param("WMIN", 1))
	countLimit, bytesLimit := 0, 0
	if vf.Param("limits", 1) == 1 {
		countLimit = vf.Choose("count", 3) // 0 (unset), 1, 2
		bytesLimit = []int{0, 3, 5}[vf.Choose("bytes", 3)]
		if countLimit == 0 && bytesLimit == 0 {
			countLimit = 2
		}
	} else if vf.Param("count1", 0) == 1 {
		countLimit = 1
	} else {
		countLimit = 1 + vf.Choose("count", 2)
	}
	if vf.Param("trickle", 0) == 1 {
		countLimit, bytesLimit = 10, 0 // never reached: only the flush timeout hands the batch over
	}
	K := vf.Param("KMIN", 1) + vf.Choose("events", vf.Param("K", 3)+1-vf.Param("KMIN", 1))
	twin := vf.Param("twin", 0) == 1

	ctl := &verifOutCtl{sent: map[*Event]bool{}, commits: map[*Event]int{}}
	addedAt := map[*Event]int64{}
	var batches [][]*Event
	b := NewBatcher(BatcherOptions{Controller: ctl, Workers: W, BatchSizeCount: countLimit, BatchSizeBytes: bytesLimit, FlushTimeout: verifFlush,
		OutFn: func(_ *WorkerData, batch *Batch) {
			// --- size bounds at hand-over
			n := len(batch.events)
			if countLimit != 0 {
				vf.Assert(n <= countLimit, "count-limit")
			}
			if bytesLimit != 0 && n > 0 {
				vf.Assert(batch.eventsSize-batch.events[n-1].Size < bytesLimit, "bytes-limit-exceeded-by-last-event-only")
			}
			var evs []*Event
			batch.ForEach(func(e *Event) { evs = append(evs, e) })
			for _, e := range batch.events {
				// staleness on the logical clock: flush timeout + two heartbeat periods
				// (+ one heartbeat period per preemption the scheduler may spend on letting time pass)
				slack := time.Duration(2+vf.Param("P", 0)) * 100 * time.Millisecond
				vf.Assert(vf.Now()-addedAt[e] <= int64(verifFlush+slack), "handed-over-within-flush-timeout")
			}
			batches = append(batches, append([]*Event(nil), batch.events...))
			vf.Yield() // the send takes time: other workers may finish first
			for _, e := range evs {
				ctl.sent[e] = true
			}
		}})
	b.workersWg.Add(W)
	for i := 0; i < W; i++ {
		go b.work()
	}
	go b.heartbeat()

	events := make([]*Event, K)
	for i := range events {
		e := &Event{SeqID: uint64(i + 1), Size: 1}
		if vf.Param("limits", 1) == 1 {
			e.Size = 1 + 2*vf.Choose("size", 2)
		}
		if vf.Param("kinds", 1) == 1 {
			switch vf.Choose("kind", 3) {
			case 1:
				e.SetChildParentKind() // the parent of a split: committed, never sent
			case 2:
				e.SetChildKind() // a child of a split: sent like any other event
			}
		}
		events[i] = e
		addedAt[e] = vf.Now()
		b.Add(e)
		// a trickle: the next event may come a little later, but before the batch goes stale
		if vf.Param("trickle", 0) == 1 && i+1 < K && vf.Choose("pause-before-next", 2) == 1 {
			time.Sleep(180 * time.Millisecond)
		}
	}
	vf.Quiesce(1000) // traffic stops; timers keep running (1 s of logical time without other activity)

	if twin {
		vf.Assert(len(ctl.committed) < K, "all-committed-when-idle")
		return
	}
	vf.Assert(len(ctl.committed) == K, "all-committed-when-idle")
	if len(ctl.committed) == K {
		for i, e := range events {
			vf.Assert(ctl.committed[i] == e, "commit-order-is-add-order")
			vf.Assert(ctl.commits[e] == 1, "committed-exactly-once")
		}
	}
	if len(batches) >= 2 {
		vf.Reach("two-batches")
	}
	b.Stop()
	vf.Reach("stopped")
}

// C08.H4: Stop racing with Add never panics and never commits an unsent event.
func VerifH_C08_stopVsAdd() {
	W := 1 + vf.Choose("workers", 2)
	ctl := &verifOutCtl{sent: map[*Event]bool{}, commits: map[*Event]int{}}
	b := NewBatcher(BatcherOptions{Controller: ctl, Workers: W, BatchSizeCount: 1, FlushTimeout: verifFlush,
		OutFn: func(_ *WorkerData, batch *Batch) {
			batch.ForEach(func(e *Event) { ctl.sent[e] = true })
		}})
	b.workersWg.Add(W)
	for i := 0; i < W; i++ {
		go b.work()
	}
	go b.heartbeat()
	done := make(chan struct{})
	go func() {
		for i := 0; i < vf.Param("K", 2); i++ {
			b.Add(&Event{SeqID: uint64(i + 1), Size: 1})
		}
		close(done)
	}()
	vf.Yield()
	b.Stop()
	<-done
	if vf.Param("twin", 0) == 1 {
		vf.Fail("twin")
	}
	vf.Reach("stopped-while-adding")
}

// C08.H4: Stop racing with the flush heart-beat that holds a stale, partly filled batch: no send on
// the closed channel, whatever the order of the stop flag check, the lock and the hand-over.
func VerifH_C08_stopVsHeartbeat() {
	ctl := &verifOutCtl{sent: map[*Event]bool{}, commits: map[*Event]int{}}
	b := NewBatcher(BatcherOptions{Controller: ctl, Workers: 1, BatchSizeCount: 3, FlushTimeout: verifFlush,
		OutFn: func(_ *WorkerData, batch *Batch) {
			batch.ForEach(func(e *Event) { ctl.sent[e] = true })
		}})
	b.workersWg.Add(1)
	go b.work()
	go b.heartbeat()
	b.Add(&Event{SeqID: 1, Size: 1})
	// the batch becomes stale; Stop arrives around the tick that would flush it
	time.Sleep(verifFlush/2 + time.Duration(vf.Choose("stop-at", 6))*50*time.Millisecond) // 100 .. 350 ms: before, at and after the tick that finds the batch stale
	b.Stop()
	vf.Quiesce(300)
	if vf.Param("twin", 0) == 1 {
		vf.Fail("twin")
	}
	vf.Reach("stopped-around-a-flush-tick")
}
