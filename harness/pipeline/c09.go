package pipeline

import (
	"context"
	"errors"
	"time"

	vf "github.com/ozontech/file.d/zzverif"
)

var errVerifSend = errors.New("verif: send failed")

// C09.H1: RetriableBatcher.Out under every success/failure sequence of the send function.
func VerifH_C09_retryLoop() {
	attempt := -2 + vf.Choose("attempt", 6) // -2..3
	dead := vf.Choose("dead", 2) == 1
	longPause := vf.Choose("long-pause", 2) == 1 // first pause beyond the library's 15 min cap -> backoff.Stop
	maxCalls := vf.Param("M", 6)
	nev := 1 + vf.Choose("events", 2)
	twin := vf.Param("twin", 0) == 1

	events := make([]*Event, nev)
	for i := range events {
		events[i] = &Event{SeqID: uint64(i + 1), Size: 1}
		if vf.Choose("kind", 2) == 1 {
			events[i].SetChildParentKind()
		}
	}
	batch := NewPreparedBatch(append([]*Event(nil), events...))
	batch.status = BatchStatusMaxSizeExceeded

	calls := 0
	var callTimes []int64
	outFn := func(_ *WorkerData, b *Batch) error {
		calls++
		callTimes = append(callTimes, vf.Now())
		if calls >= maxCalls {
			return nil // bound: the sink recovers at the latest on call M
		}
		if vf.Choose("fail", 2) == 1 {
			return errVerifSend
		}
		return nil
	}
	onErrCalls := 0
	var failed []*Event
	onErr := func(err error, evs []*Event) {
		onErrCalls++
		failed = append(failed, evs...)
	}
	min := time.Millisecond
	if longPause {
		min = 40 * time.Minute
	}
	// built by the real constructor (its batcher is not started: Out is driven directly)
	rb := NewRetriableBatcher(&BatcherOptions{Controller: &verifOutCtl{sent: map[*Event]bool{}, commits: map[*Event]int{}}, Workers: 1, BatchSizeCount: 4, FlushTimeout: verifFlush},
		outFn, BackoffOpts{MinRetention: min, Multiplier: 2, AttemptNum: attempt, IsDeadQueueAvailable: dead}, onErr)
	var data WorkerData
	rb.Out(&data, batch)

	gaveUp := onErrCalls > 0
	if twin {
		vf.Assert(!gaveUp, "twin")
		return
	}
	vf.Assert(onErrCalls <= 1, "error-callback-at-most-once")
	if !gaveUp {
		// success: nothing reported, batch untouched (the main batcher will commit it)
		vf.Assert(len(batch.events) == nev && batch.status == BatchStatusMaxSizeExceeded, "success-keeps-batch")
		for i := range events {
			vf.Assert(batch.events[i] == events[i], "success-keeps-events")
		}
		vf.Reach("sent")
	} else {
		vf.Reach("gave-up")
		if !longPause {
			// count based exhaustion: never for a negative retry count, and only after >= attempt retries
			vf.Assert(attempt >= 0, "negative-retry-means-unlimited")
			vf.Assert(calls-1 >= attempt, "retried-at-least-configured")
		}
		// every event of the batch reported exactly once, in order (parents of a split included)
		vf.Assert(len(failed) == nev, "all-events-reported-once")
		if len(failed) == nev {
			for i := range events {
				vf.Assert(failed[i] == events[i], "reported-in-order")
			}
		}
		if dead {
			vf.Assert(len(batch.events) == 0 && batch.status == BatchStatusInDeadQueue, "dead-queue-empties-main-batch")
			vf.Reach("routed-to-dead-queue")
		} else {
			vf.Assert(len(batch.events) == nev && batch.status != BatchStatusInDeadQueue, "no-dead-queue-keeps-batch")
		}
	}
	// pauses: call i+1 happens at least MinRetention/2 * 2^i after call i (growing, library randomisation 0.5)
	lo := int64(min) / 2
	for i := 1; i < len(callTimes); i++ {
		vf.Assert(callTimes[i]-callTimes[i-1] >= lo, "pause-grows")
		if lo < int64(30*time.Second) {
			lo *= 2
		}
	}
	vf.Observe("calls", calls, onErrCalls)
}

// C09.H1b: the retry pauses of one worker's failing batch keep growing while another worker of the
// same batcher sends other batches (each send has its own retry policy state).
func VerifH_C09_retryPausesWithOtherWorker() {
	fails := 3 + vf.Choose("failures", 2)
	bad := NewPreparedBatch([]*Event{{SeqID: 1, Size: 1}})
	calls := 0
	var callTimes []int64
	outFn := func(_ *WorkerData, b *Batch) error {
		if b != bad {
			return nil
		}
		calls++
		callTimes = append(callTimes, vf.Now())
		if calls <= fails {
			return errVerifSend
		}
		return nil
	}
	min := 40 * time.Millisecond
	rb := NewRetriableBatcher(&BatcherOptions{Controller: &verifOutCtl{sent: map[*Event]bool{}, commits: map[*Event]int{}}, Workers: 2, BatchSizeCount: 4, FlushTimeout: verifFlush},
		outFn, BackoffOpts{MinRetention: min, Multiplier: 2, AttemptNum: 10}, func(error, []*Event) {})
	otherDone := false
	go func() { // the other worker: a new batch every 15 ms
		var d WorkerData
		for j := 0; j < vf.Param("J", 20); j++ {
			rb.Out(&d, NewPreparedBatch([]*Event{{SeqID: uint64(100 + j), Size: 1}}))
			time.Sleep(15 * time.Millisecond)
		}
		otherDone = true
	}()
	var data WorkerData
	rb.Out(&data, bad)
	if vf.Param("twin", 0) == 1 {
		vf.Assert(len(callTimes) <= 1, "pause-grows")
		return
	}
	lo := int64(min) / 2 // library randomisation 0.5
	for i := 1; i < len(callTimes); i++ {
		vf.Assert(callTimes[i]-callTimes[i-1] >= lo, "pause-grows")
		lo *= 2
	}
	vf.Assert(len(callTimes) == fails+1, "retried-until-success")
	_ = otherDone
	vf.Reach("retried-beside-other-worker")
}

// C09.H1c: the batcher's context is cancelled (the output is being stopped) while a failed batch
// waits between two attempts: the batch is still neither committed as sent nor dropped silently -
// it is committed only after a successful send or after it was given up through the error callback.
func VerifH_C09_retryVsStop() {
	ctl := &verifOutCtl{sent: map[*Event]bool{}, commits: map[*Event]int{}}
	failures := 1 + vf.Choose("failures", 3)
	calls, gaveUp := 0, 0
	outFn := func(_ *WorkerData, b *Batch) error {
		calls++
		if calls <= failures {
			return errVerifSend
		}
		b.ForEach(func(e *Event) { ctl.sent[e] = true })
		return nil
	}
	var failed []*Event
	rb := NewRetriableBatcher(&BatcherOptions{Controller: ctl, Workers: 1, BatchSizeCount: 1, FlushTimeout: verifFlush},
		outFn, BackoffOpts{MinRetention: 100 * time.Millisecond, Multiplier: 2, AttemptNum: 5}, func(err error, evs []*Event) {
			gaveUp++
			failed = append(failed, evs...)
		})
	ctx, cancel := context.WithCancel(context.Background())
	rb.Start(ctx)
	ev := &Event{SeqID: 1, Size: 1}
	rb.Add(ev)
	// stop arrives during one of the retry pauses
	time.Sleep(time.Duration(30+100*vf.Choose("stop-after-100ms-steps", 4)) * time.Millisecond)
	cancel()
	vf.Quiesce(3000)
	wasReported := false
	for _, e := range failed {
		if e == ev {
			wasReported = true
		}
	}
	if vf.Param("twin", 0) == 1 {
		vf.Assert(ctl.commits[ev] == 0, "committed-only-after-send-or-give-up")
		return
	}
	if ctl.commits[ev] > 0 {
		vf.Assert(ctl.sent[ev] || wasReported, "committed-only-after-send-or-give-up")
	}
	vf.Assert(ctl.commits[ev] <= 1, "committed-at-most-once")
	vf.Reach("stopped-during-retries")
}
