package pipeline

import (
	"sync"

	"go.uber.org/atomic"

	vf "github.com/ozontech/file.d/zzverif"
)

// input stub for the spread mode (kafka): what matters is the order of commit notifications of one
// partition, because kafka keeps only the highest marked offset
type verifSpreadInput struct {
	committed map[int64]bool
	order     []int64
	all       []int64
}

func (in *verifSpreadInput) Start(AnyConfig, *InputPluginParams) {}
func (in *verifSpreadInput) Stop()                               {}
func (in *verifSpreadInput) PassEvent(*Event) bool               { return true }
func (in *verifSpreadInput) Commit(e *Event) {
	// C10: marking offset+1 of this record must not pass an unfinished earlier record of the partition
	for _, o := range in.all {
		if o < e.Offset {
			vf.Assert(in.committed[o], "kafka-mark-does-not-pass-an-unfinished-record")
		}
	}
	in.committed[e.Offset] = true
	in.order = append(in.order, e.Offset)
}

// C10.H3: the pipeline in spread mode (as the kafka input configures it): records of ONE partition are
// distributed over the processors by the sequence id left in the recycled event object; the commit
// notifications then reach the input in completion order.
func VerifH_C10_spread() {
	in := &verifSpreadInput{committed: map[int64]bool{}}
	p := &Pipeline{settings: &Settings{Capacity: 2}, eventLogMu: &sync.Mutex{},
		procCount: atomic.NewInt32(2), activeProcs: atomic.NewInt32(0), useSpread: true, disableStreams: true}
	p.actionMetrics = actionMetrics{m: map[string]*actionMetric{}, mu: &sync.RWMutex{}}
	p.eventPool = newLowMemoryEventPool(2)
	p.streamer = newStreamer(verifEventTimeout)
	p.input = in
	p.router = NewRouter()
	out := &verifOutput{}
	p.router.output = out
	out.b = NewBatcher(BatcherOptions{Controller: p, Workers: 1, BatchSizeCount: 1, FlushTimeout: verifFlush,
		OutFn: func(_ *WorkerData, batch *Batch) {}})
	out.b.workersWg.Add(1)
	go out.b.work()
	for i := 0; i < 2; i++ {
		proc := newProcessor(i, &p.actionMetrics, p.activeProcs, p.router, p.streamer, p.finalize, p.IncMaxEventSizeExceeded, p.IncCountEventPanicsRecovered)
		proc.AddActionPlugin(&ActionPluginInfo{ActionPluginStaticInfo: &ActionPluginStaticInfo{PluginStaticInfo: &PluginStaticInfo{Type: "work"}}, PluginRuntimeInfo: &PluginRuntimeInfo{Plugin: &verifWork{}}})
		p.Procs = append(p.Procs, proc)
		go proc.process()
	}
	read := func(off int64) {
		e := p.eventPool.get(1)
		_ = e.Root.DecodeString(`{"k":1}`)
		e.Offset, e.SourceID, e.SourceName = off, 7, "topic"
		in.all = append(in.all, off)
		p.streamEvent(e)
	}
	// warm-up: the two pooled event objects come back carrying sequence ids 1 and 2
	read(1)
	read(2)
	vf.Quiesce(0)
	vf.Assert(in.committed[1] && in.committed[2], "warm-up-committed")
	// now two more records of the same partition
	read(3)
	read(4)
	vf.Quiesce(500)
	if vf.Param("twin", 0) == 1 {
		vf.Assert(!in.committed[4], "all-committed")
		return
	}
	vf.Assert(in.committed[3] && in.committed[4], "all-committed")
	vf.Reach("spread-scenario-finished")
}

// an action that takes some time (a scheduling point), as any real action does
type verifWork struct{}

func (a *verifWork) Start(AnyConfig, *ActionPluginParams) {}
func (a *verifWork) Stop()                                {}
func (a *verifWork) Do(e *Event) ActionResult {
	if !e.IsTimeoutKind() {
		vf.Yield()
	}
	return ActionPass
}
