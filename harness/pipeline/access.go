package pipeline

// accessors for harnesses that live in other packages

func VerifOffsetsCurrent(o Offsets) int64 { return o.current }

// VerifCheckInputBytes runs the real admission size check of Pipeline.In for harnesses in other packages.
func VerifCheckInputBytes(maxEventSize int, cutOff bool, data []byte) (out []byte, cut bool, ok bool) {
	p := verifShell(&Settings{MaxEventSize: maxEventSize, CutOffEventByLimit: cutOff})
	return p.checkInputBytes(data, "src", nil)
}

// VerifNewEvent builds a regular event with the given source, offset, sequence id and stream name.
func VerifNewEvent(src SourceID, off int64, seq uint64, stream string) *Event {
	return &Event{SourceID: src, Offset: off, SeqID: seq, streamName: StreamName(stream), SourceName: "f"}
}

// VerifBatchMarkIterable sets the flag Batch.append maintains (NewPreparedBatch does not).
func VerifBatchMarkIterable(b *Batch, v bool) { b.hasIterableEvents = v }
