package pipeline

// accessors for harnesses that live in other packages

func VerifOffsetsCurrent(o Offsets) int64 { return o.current }

// VerifCheckInputBytes runs the real admission size check of Pipeline.In for harnesses in other packages.
func VerifCheckInputBytes(maxEventSize int, cutOff bool, data []byte) (out []byte, cut bool, ok bool) {
	p := verifShell(&Settings{MaxEventSize: maxEventSize, CutOffEventByLimit: cutOff})
	return p.checkInputBytes(data, "src", nil)
}
