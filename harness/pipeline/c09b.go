package pipeline

import (
	"errors"
	"time"

	vf "github.com/ozontech/file.d/zzverif"
)

// dead-queue output: a plain Batcher whose sends always succeed
type verifDeadQueue struct{ b *Batcher }

func (o *verifDeadQueue) Start(AnyConfig, *OutputPluginParams) {}
func (o *verifDeadQueue) Stop()                                {}
func (o *verifDeadQueue) Out(e *Event)                         { o.b.Add(e) }

type verifRetryCtl struct {
	mainAcked, dqAcked map[uint64]bool
	routed             map[uint64]bool
	commits            map[uint64]int
	order              []uint64
}

func (c *verifRetryCtl) Commit(e *Event) {
	id := e.SeqID
	vf.Assert(c.mainAcked[id] || c.dqAcked[id], "committed-only-after-an-output-acknowledged-it")
	if c.routed[id] {
		vf.Assert(c.dqAcked[id], "dead-queued-event-committed-by-the-dead-queue-only")
	}
	c.commits[id]++
	vf.Assert(c.commits[id] == 1, "committed-exactly-once")
	c.order = append(c.order, id)
}
func (c *verifRetryCtl) Error(string) {}

var errVerifSink = errors.New("verif: sink down")

// C09.H3 / C01.H5: a RetriableBatcher with a dead queue: failed batches go exactly one way.
func VerifH_C09_deadQueue() {
	W := vf.Param("WMIN", 1) + vf.Choose("workers", vf.Param("W", 2)+1-vf.Param("WMIN", 1))
	K := vf.Param("K", 3)
	withDQ := vf.Param("dq", 1) == 1
	ctl := &verifRetryCtl{mainAcked: map[uint64]bool{}, dqAcked: map[uint64]bool{}, routed: map[uint64]bool{}, commits: map[uint64]int{}}
	router := NewRouter()
	dq := &verifDeadQueue{}
	if withDQ {
		router.deadQueue = dq
		dq.b = NewBatcher(BatcherOptions{Controller: ctl, Workers: 1, BatchSizeCount: 1, FlushTimeout: verifFlush,
			OutFn: func(_ *WorkerData, b *Batch) {
				vf.Yield()
				b.ForEach(func(e *Event) { ctl.dqAcked[e.SeqID] = true })
			}})
		dq.b.workersWg.Add(1)
		go dq.b.work()
		go dq.b.heartbeat()
	}
	failing := map[uint64]bool{}
	for i := 1; i <= K; i++ {
		failing[uint64(i)] = vf.Choose("send-fails", 2) == 1
	}
	var gates map[uint64]chan struct{}
	if vf.Param("gated", 0) == 1 {
		gates = map[uint64]chan struct{}{}
		for i := 1; i <= K; i++ {
			gates[uint64(i)] = make(chan struct{})
		}
	}
	outFn := func(_ *WorkerData, b *Batch) error {
		var ids []uint64
		bad := false
		b.ForEach(func(e *Event) {
			ids = append(ids, e.SeqID)
			if failing[e.SeqID] {
				bad = true
			}
		})
		if gates != nil {
			for _, id := range ids {
				<-gates[id] // the send of this event returns when the harness says so (completion order)
			}
		} else {
			vf.Yield() // the send takes time
		}
		if bad {
			return errVerifSink
		}
		for _, id := range ids {
			ctl.mainAcked[id] = true
		}
		return nil
	}
	onError := func(err error, events []*Event) {
		for _, e := range events {
			if withDQ {
				ctl.routed[e.SeqID] = true
			} else {
				ctl.mainAcked[e.SeqID] = true // without a dead queue the failure is reported and the batch is done
			}
			router.Fail(e)
		}
	}
	rb := NewRetriableBatcher(&BatcherOptions{Controller: ctl, Workers: W, BatchSizeCount: 1, FlushTimeout: verifFlush},
		outFn, BackoffOpts{MinRetention: time.Millisecond, Multiplier: 2, AttemptNum: 0, IsDeadQueueAvailable: withDQ}, onError)
	rb.batcher.workersWg.Add(W)
	for i := 0; i < W; i++ {
		go rb.batcher.work()
	}
	go rb.batcher.heartbeat()
	for i := 1; i <= K; i++ {
		rb.Add(&Event{SeqID: uint64(i), Size: 1})
	}
	if gates != nil {
		// the concurrently running sends complete in an arbitrary order
		left := make([]uint64, 0, K)
		for i := 1; i <= K; i++ {
			left = append(left, uint64(i))
		}
		for len(left) > 0 {
			k := vf.Choose("completes-next", len(left))
			close(gates[left[k]])
			left = append(left[:k:k], left[k+1:]...)
			vf.Quiesce(20) // retries, dead-queue hand-over and commits of what became possible
		}
	}
	vf.Quiesce(1500)
	if vf.Param("twin", 0) == 1 {
		vf.Assert(len(ctl.order) != K, "every-event-committed-once")
		return
	}
	vf.Assert(len(ctl.order) == K, "every-event-committed-once")
	// commits of the events the main output delivered itself keep their order
	last := uint64(0)
	for _, id := range ctl.order {
		if ctl.routed[id] {
			vf.Reach("routed-to-dead-queue")
			continue
		}
		vf.Assert(id > last, "main-output-commits-in-add-order")
		last = id
	}
	// known design limitation (D3): commits of dead-queued events may come after later main commits
	for i, id := range ctl.order {
		if ctl.routed[id] {
			for _, later := range ctl.order[:i] {
				vf.Assert(later < id, "dead-queue-commit-not-after-later-events")
			}
		}
	}
}

// outputs as the router sees them: plugins whose Stop stops their batcher
type verifMainOut struct{ rb *RetriableBatcher }

func (o *verifMainOut) Start(AnyConfig, *OutputPluginParams) {}
func (o *verifMainOut) Stop()                                { o.rb.Stop() }
func (o *verifMainOut) Out(e *Event)                         { o.rb.Add(e) }

type verifDQOut struct{ b *Batcher }

func (o *verifDQOut) Start(AnyConfig, *OutputPluginParams) {}
func (o *verifDQOut) Stop()                                { o.b.Stop() }
func (o *verifDQOut) Out(e *Event)                         { o.b.Add(e) }

// C09.H3b: the pipeline is stopped (the real Router.Stop) while the main output is still retrying a batch
// and a dead queue is configured: the retries run out during the stop, the events are handed to the dead
// queue, and the dead queue still writes and commits them - nothing is reset and then dropped.
func VerifH_C09_routerStopWhileRetrying() {
	K := 1 + vf.Choose("events", vf.Param("K", 2))
	ctl := &verifRetryCtl{mainAcked: map[uint64]bool{}, dqAcked: map[uint64]bool{}, routed: map[uint64]bool{}, commits: map[uint64]int{}}
	router := NewRouter()
	dq := &verifDQOut{}
	dq.b = NewBatcher(BatcherOptions{Controller: ctl, Workers: 1, BatchSizeCount: 1, FlushTimeout: verifFlush,
		OutFn: func(_ *WorkerData, b *Batch) {
			b.ForEach(func(e *Event) { ctl.dqAcked[e.SeqID] = true })
		}})
	dq.b.workersWg.Add(1)
	go dq.b.work()
	go dq.b.heartbeat()
	router.deadQueue = dq
	attempts := 0
	outFn := func(_ *WorkerData, b *Batch) error {
		attempts++
		return errVerifSink
	}
	onError := func(err error, events []*Event) {
		for _, e := range events {
			ctl.routed[e.SeqID] = true
			router.Fail(e)
		}
	}
	rb := NewRetriableBatcher(&BatcherOptions{Controller: ctl, Workers: 1, BatchSizeCount: K, FlushTimeout: verifFlush},
		outFn, BackoffOpts{MinRetention: 100 * time.Millisecond, Multiplier: 1, AttemptNum: 1, IsDeadQueueAvailable: true}, onError)
	rb.batcher.workersWg.Add(1)
	go rb.batcher.work()
	go rb.batcher.heartbeat()
	main := &verifMainOut{rb}
	router.output = main
	for i := 1; i <= K; i++ {
		router.Out(&Event{SeqID: uint64(i), Size: 1})
	}
	// the stop arrives before, between or after the attempts
	time.Sleep(time.Duration(vf.Choose("stop-after", 4)) * 80 * time.Millisecond)
	router.Stop()
	vf.Quiesce(500)
	for i := 1; i <= K; i++ {
		id := uint64(i)
		if vf.Param("twin", 0) == 1 {
			vf.Assert(!ctl.dqAcked[id], "event-of-a-failed-batch-is-written-by-the-dead-queue")
			continue
		}
		vf.Assert(ctl.dqAcked[id], "event-of-a-failed-batch-is-written-by-the-dead-queue")
		vf.Assert(ctl.commits[id] == 1, "committed-exactly-once")
	}
	vf.Assert(attempts >= 2, "send-was-retried")
	vf.Reach("stopped-while-retrying")
}
