package pipeline

import (
	"sync"
	"time"

	"go.uber.org/atomic"

	vf "github.com/ozontech/file.d/zzverif"
)

// C02/C04 directed scenario: a stream behind a multi-line action gets a time-out flush, then a new
// run starts and the next record arrives at the very moment the heartbeat looks at the stream again:
// the record must not be replaced by a time-out event (it ends exactly one way).
func VerifH_C02_timeoutVsPut() {
	w := &verifWorld{streamOf: map[int64]string{}, acked: map[int64]bool{}, dropped: map[int64]bool{}, committed: map[int64]int{},
		commitSeq: map[string][]int64{}, capacity: 4}
	p := &Pipeline{settings: &Settings{Capacity: 4, StreamField: "stream"}, eventLogMu: &sync.Mutex{},
		procCount: atomic.NewInt32(1), activeProcs: atomic.NewInt32(0)}
	p.actionMetrics = actionMetrics{m: map[string]*actionMetric{}, mu: &sync.RWMutex{}}
	p.eventPool = newLowMemoryEventPool(4)
	w.pool = p.eventPool
	p.streamer = newStreamer(verifEventTimeout) // its heartbeat is driven by the harness (tick)
	p.input = &verifInput{w: w}
	p.router = NewRouter()
	out := &verifOutput{}
	p.router.output = out
	out.b = NewBatcher(BatcherOptions{Controller: p, Workers: 1, BatchSizeCount: 1, FlushTimeout: verifFlush,
		OutFn: func(_ *WorkerData, batch *Batch) {
			batch.ForEach(func(e *Event) { w.acked[e.Offset] = true })
		}})
	out.b.workersWg.Add(1)
	go out.b.work()
	proc := newProcessor(0, &p.actionMetrics, p.activeProcs, p.router, p.streamer, p.finalize, p.IncMaxEventSizeExceeded, p.IncCountEventPanicsRecovered)
	kinds := []int{}
	j := &verifScriptedJoiner{w: w, ctl: proc, kinds: &kinds}
	proc.AddActionPlugin(&ActionPluginInfo{ActionPluginStaticInfo: &ActionPluginStaticInfo{PluginStaticInfo: &PluginStaticInfo{Type: "joiner"}}, PluginRuntimeInfo: &PluginRuntimeInfo{Plugin: j}})
	go proc.process()

	read := func(off int64, kind int) {
		e := p.eventPool.get(1)
		_ = e.Root.DecodeString(`{"stream":"a"}`)
		e.Offset, e.SourceID, e.SourceName = off, 1, "src"
		kinds = append(kinds, kind)
		w.streamOf[off] = "a"
		w.order = append(w.order, off)
		p.streamEvent(e)
	}
	step := 0
	tick := func() { // what streamer.heartbeat does every 200 ms
		step++
		vf.Observe("tick", step)
		p.streamer.blockedMu.Lock()
		sts := append([]*stream(nil), p.streamer.blocked...)
		p.streamer.blockedMu.Unlock()
		for _, st := range sts {
			st.tryUnblock()
		}
	}

	read(1, 0) // start of a run: held
	vf.Quiesce(0)
	vf.Advance(int64(verifEventTimeout + 100*time.Millisecond))
	tick() // stream time-out: the run is flushed
	vf.Quiesce(0)
	vf.Assert(w.committed[1] == 1, "first-run-flushed-by-time-out")
	read(2, 0) // a new run starts: held, the processor waits for the next record
	vf.Quiesce(0)
	vf.Advance(int64(verifEventTimeout + 100*time.Millisecond))
	// the next record arrives exactly when the heartbeat examines the stream
	nextKind := 1 + vf.Choose("next-record", 2) // continuation | other line
	read(3, nextKind)
	tick()
	vf.Quiesce(0)
	vf.Advance(int64(verifEventTimeout + 100*time.Millisecond))
	tick()
	vf.Quiesce(500)
	if vf.Param("twin", 0) == 1 {
		vf.Assert(w.committed[3] == 0 && !w.dropped[3], "record-ends-exactly-one-way")
		return
	}
	for _, o := range w.order {
		vf.Assert(w.committed[o] == 1 || (w.dropped[o] && w.committed[o] == 0), "record-ends-exactly-one-way")
	}
	vf.Assert(p.eventPool.inUse() == 0, "in-use-returns-to-zero")
	vf.Reach("scenario-finished")
}

// the joiner of c01.go with the line kinds scripted by the harness (by arrival order)
type verifScriptedJoiner struct {
	w     *verifWorld
	ctl   ActionPluginController
	held  *Event
	kinds *[]int
}

func (a *verifScriptedJoiner) Start(_ AnyConfig, p *ActionPluginParams) { a.ctl = p.Controller }
func (a *verifScriptedJoiner) Stop()                                    {}
func (a *verifScriptedJoiner) flush() {
	e := a.held
	a.held = nil
	a.ctl.Propagate(e)
}
func (a *verifScriptedJoiner) Do(e *Event) ActionResult {
	if e.IsTimeoutKind() {
		if a.held != nil {
			a.flush()
		}
		return ActionDiscard
	}
	switch (*a.kinds)[e.Offset-1] {
	case 0:
		if a.held != nil {
			a.flush()
		}
		a.held = e
		return ActionHold
	case 1:
		if a.held != nil {
			a.w.dropped[e.Offset] = true
			return ActionCollapse
		}
	}
	if a.held != nil {
		a.flush()
	}
	return ActionPass
}

// C04 directed scenario: the real streamer heart-beat (time-out delivery) against a processor that
// enters and leaves blockGet while records keep arriving: nothing may wedge (lock order between the
// blocked list and the stream), every record ends exactly one way.
func VerifH_C04_heartbeatVsBlockGet() {
	w := &verifWorld{streamOf: map[int64]string{}, acked: map[int64]bool{}, dropped: map[int64]bool{}, committed: map[int64]int{},
		commitSeq: map[string][]int64{}, capacity: 4}
	p := &Pipeline{settings: &Settings{Capacity: 4, StreamField: "stream"}, eventLogMu: &sync.Mutex{},
		procCount: atomic.NewInt32(1), activeProcs: atomic.NewInt32(0)}
	p.actionMetrics = actionMetrics{m: map[string]*actionMetric{}, mu: &sync.RWMutex{}}
	p.eventPool = newLowMemoryEventPool(4)
	w.pool = p.eventPool
	p.streamer = newStreamer(verifEventTimeout)
	p.input = &verifInput{w: w}
	p.router = NewRouter()
	out := &verifOutput{}
	p.router.output = out
	out.b = NewBatcher(BatcherOptions{Controller: p, Workers: 1, BatchSizeCount: 1, FlushTimeout: verifFlush,
		OutFn: func(_ *WorkerData, batch *Batch) {
			batch.ForEach(func(e *Event) { w.acked[e.Offset] = true })
		}})
	out.b.workersWg.Add(1)
	go out.b.work()
	proc := newProcessor(0, &p.actionMetrics, p.activeProcs, p.router, p.streamer, p.finalize, p.IncMaxEventSizeExceeded, p.IncCountEventPanicsRecovered)
	kinds := []int{}
	j := &verifScriptedJoiner{w: w, ctl: proc, kinds: &kinds}
	proc.AddActionPlugin(&ActionPluginInfo{ActionPluginStaticInfo: &ActionPluginStaticInfo{PluginStaticInfo: &PluginStaticInfo{Type: "joiner"}}, PluginRuntimeInfo: &PluginRuntimeInfo{Plugin: j}})
	go proc.process()
	p.streamer.start() // the real heart-beat, every 200 ms

	K := vf.Param("K", 3)
	for i := 0; i < K; i++ {
		k := 0
		if i > 0 {
			k = vf.Choose("line-kind", 3)
		}
		kinds = append(kinds, k)
	}
	done := false
	go func() {
		for i := 1; i <= K; i++ {
			e := p.eventPool.get(1)
			_ = e.Root.DecodeString(`{"stream":"a"}`)
			e.Offset, e.SourceID, e.SourceName = int64(i), 1, "src"
			off := e.Offset
			vf.Atomic(func() {
				w.streamOf[off] = "a"
				w.order = append(w.order, off)
			})
			p.streamEvent(e)
			if vf.Choose("pause-after-record", 2) == 1 {
				time.Sleep(250 * time.Millisecond)
			}
		}
		done = true
	}()
	vf.Quiesce(1500)
	if vf.Param("twin", 0) == 1 {
		vf.Assert(!done, "reader-never-wedged")
		return
	}
	vf.Assert(done, "reader-never-wedged")
	for _, o := range w.order {
		vf.Assert(w.committed[o] == 1 || (w.dropped[o] && w.committed[o] == 0), "record-ends-exactly-one-way")
	}
	vf.Assert(p.eventPool.inUse() == 0, "in-use-returns-to-zero")
	vf.Reach("scenario-finished")
}
