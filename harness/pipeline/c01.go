package pipeline

import (
	"sync"
	"time"

	"go.uber.org/atomic"
	"go.uber.org/zap"

	vf "github.com/ozontech/file.d/zzverif"
)

// ---- ghost bookkeeping of the integrated scenario (events are identified by their offset) ----

type verifWorld struct {
	streamOf  map[int64]string // offset -> stream name of every accepted event
	order     []int64          // accepted offsets in read order
	acked     map[int64]bool   // the output's send returned for it
	dropped   map[int64]bool   // deliberately dropped by an action
	committed map[int64]int    // commit notifications per offset
	commitSeq map[string][]int64
	pool      pool
	capacity  int
	got       int // events handed out by the pool to the reader

	splitParent map[int64]bool  // offsets of events the split action made parents
	commitAt    map[int64]int64 // logical time of the commit notification (only kept when non-nil)
}

// input plugin stub: the commit notifications are where C01/C02 are asserted
type verifInput struct {
	w        *verifWorld
	refuse   bool
	refusals int
}

func (in *verifInput) Start(AnyConfig, *InputPluginParams) {}
func (in *verifInput) Stop()                               {}
func (in *verifInput) PassEvent(*Event) bool {
	// an input may recognise a record as already committed (after a restart) and refuse it
	if in.refuse && vf.Choose("input-refuses", 2) == 1 {
		in.refusals++
		return false
	}
	return true
}
func (in *verifInput) Commit(e *Event) {
	w := in.w
	off := e.Offset
	st := w.streamOf[off]
	// C01: acknowledged by the output, and nothing earlier of the same stream is unfinished
	if !w.splitParent[off] { // the parent of a split is not sent itself; its children are
		vf.Assert(w.acked[off], "committed-event-was-acknowledged")
	}
	for _, o := range w.order {
		if o == off {
			break
		}
		if w.streamOf[o] == st {
			// (a split parent is finished once it has been committed itself: it is never sent)
			vf.Assert(w.acked[o] || w.dropped[o] || w.committed[o] > 0, "nothing-earlier-in-the-stream-is-unfinished")
		}
	}
	if VerifRealCommit != nil && vf.Param("real-commit", 0) == 1 {
		VerifRealCommit(e)
		if VerifRealCommitted != nil {
			VerifRealCommitted(off, st)
		}
	}
	// C02: once per event, in read order per stream
	w.committed[off]++
	if w.commitAt != nil {
		w.commitAt[off] = vf.Now()
	}
	vf.Assert(w.committed[off] == 1, "committed-once")
	seq := w.commitSeq[st]
	if len(seq) > 0 {
		vf.Assert(seq[len(seq)-1] < off, "commits-in-read-order")
	}
	w.commitSeq[st] = append(seq, off)
	// C05
	// events held = handed out by the pool and neither committed nor dropped yet (a ghost count: the
	// standard pool's own counter is decremented after the slot is already free again, so it can
	// read capacity+1 for an instant although no more than capacity events exist)
	held := w.got - len(w.committed) - len(w.dropped)
	vf.Assert(held <= w.capacity, "in-use-within-capacity")
}

// output plugin stub: everything goes to a real Batcher
type verifOutput struct{ b *Batcher }

func (o *verifOutput) Start(AnyConfig, *OutputPluginParams) {}
func (o *verifOutput) Stop()                                {}
func (o *verifOutput) Out(e *Event)                         { o.b.Add(e) }

// first action: pass or discard, decided per event (symbolic content of the event would decide it)
type verifFilter struct {
	w       *verifWorld
	enabled bool
}

func (a *verifFilter) Start(AnyConfig, *ActionPluginParams) {}
func (a *verifFilter) Stop()                                {}
func (a *verifFilter) Do(e *Event) ActionResult {
	if e.IsTimeoutKind() {
		// only the multi-line actions understand time-out events (their Root is nil): every other
		// action dereferences Root, i.e. the collector would crash here
		vf.Fail("time-out-event-delivered-to-an-action-that-holds-nothing")
		return ActionDiscard
	}
	if a.enabled && vf.Choose("filter-discards", 2) == 1 {
		a.w.dropped[e.Offset] = true
		return ActionDiscard
	}
	return ActionPass
}

// second action: the hold/collapse/propagate protocol of the multi-line actions (join is checked in C15)
type verifJoiner struct {
	w    *verifWorld
	ctl  ActionPluginController
	held *Event
}

func (a *verifJoiner) Start(_ AnyConfig, p *ActionPluginParams) { a.ctl = p.Controller }
func (a *verifJoiner) Stop()                                    {}
func (a *verifJoiner) flush() {
	e := a.held
	a.held = nil
	a.ctl.Propagate(e)
}
func (a *verifJoiner) Do(e *Event) ActionResult {
	if e.IsTimeoutKind() {
		if a.held != nil {
			a.flush()
		}
		return ActionDiscard
	}
	kind := 2
	if vf.Param("script", 0) == 2 {
		// scripted by stream: record 1 opens a run on stream a, the later records of a continue it, stream b carries single lines
		switch {
		case e.Offset == 1:
			kind = 0
		case a.w.streamOf[e.Offset] == "a":
			kind = 1
		}
	} else if vf.Param("script", 0) == 1 {
		// scripted: the first record starts a run, the others are single lines (the schedule is what is explored)
		if e.Offset == 1 {
			kind = 0
		}
	} else {
		kind = vf.Choose("line-kind", 3)
	}
	switch kind {
	case 0: // start of a run
		if a.held != nil {
			a.flush()
		}
		a.held = e
		return ActionHold
	case 1: // continuation
		if a.held != nil {
			if !e.IsChildKind() { // (the children of a split have no offset of their own)
				a.w.dropped[e.Offset] = true
			}
			return ActionCollapse
		}
	}
	if a.held != nil {
		a.flush()
	}
	return ActionPass
}

// third kind of action: split an event into children (the parent is only committed, never sent)
type verifSplitter struct {
	w   *verifWorld
	ctl ActionPluginController
}

func (a *verifSplitter) Start(_ AnyConfig, p *ActionPluginParams) { a.ctl = p.Controller }
func (a *verifSplitter) Stop()                                    {}
func (a *verifSplitter) Do(e *Event) ActionResult {
	if e.IsTimeoutKind() {
		return ActionDiscard
	}
	if e.IsChildKind() {
		return ActionPass
	}
	items := e.Root.Dig("items")
	if items == nil || !items.IsArray() {
		return ActionPass
	}
	if a.w.splitParent == nil {
		a.w.splitParent = map[int64]bool{}
	}
	a.w.splitParent[e.Offset] = true // known from the scenario, not from the event's kind field
	a.ctl.Spawn(e, items.AsArray())
	return ActionBreak
}

// Hooks for harnesses of plugin packages: with Param("real") == 1 the integrated scenario runs the real
// multi-line action (wrapped only to observe its verdicts) instead of the model joiner, over the documents
// the plugin's harness supplies.
var (
	VerifRealAction func() (ActionPlugin, AnyConfig)
	VerifRealDoc    func(i int, stream string) string
	// VerifRealOut, when set, sees every event the output is given (content oracles of the plugin's harness)
	VerifRealOut func(e *Event)
	// VerifRealTimeouts counts the stream time-out events the real action was given in this run
	VerifRealTimeouts int
	// VerifRealIdle, when set, runs after the scenario went idle (end-state oracles of the plugin's harness)
	VerifRealIdle func()
	// VerifRealCommit, when set, is the real input plugin's Commit: it receives every commit notification
	VerifRealCommit func(e *Event)
	// VerifRealCommitted, when set, is told offset and stream of every commit notification (ghost state of the plugin's harness)
	VerifRealCommitted func(off int64, stream string)
)

// observes what the real action decides (a collapsed or discarded event is not committed)
type verifWrap struct {
	w     *verifWorld
	inner ActionPlugin
}

func (a *verifWrap) Start(c AnyConfig, p *ActionPluginParams) { a.inner.Start(c, p) }
func (a *verifWrap) Stop()                                    { a.inner.Stop() }
func (a *verifWrap) Do(e *Event) ActionResult {
	if e.IsTimeoutKind() {
		VerifRealTimeouts++
		return a.inner.Do(e)
	}
	off := e.Offset
	res := a.inner.Do(e)
	if res == ActionCollapse || res == ActionDiscard {
		a.w.dropped[off] = true
	}
	if res == ActionBreak {
		// the event became the parent of a split: it is committed, never sent itself
		if a.w.splitParent == nil {
			a.w.splitParent = map[int64]bool{}
		}
		a.w.splitParent[off] = true
	}
	return res
}

const verifEventTimeout = 300 * time.Millisecond

// C01 / C02 / C04 / C05: the integrated pipeline under the symbolic scheduler.
func VerifH_C01_pipeline() {
	K := vf.Param("K", 2)
	capacity := vf.Param("CAPMIN", 1) + vf.Choose("capacity", vf.Param("CAP", 2)+1-vf.Param("CAPMIN", 1))
	nproc := 1 + vf.Choose("processors", vf.Param("PROCS", 2))
	workers := 1 + vf.Choose("workers", vf.Param("W", 1))
	batchCount := vf.Param("BSMIN", 1) + vf.Choose("batch-size", vf.Param("BS", 2)+1-vf.Param("BSMIN", 1))
	lowMem := vf.Param("pool", 2) == 1
	if vf.Param("pool", 2) == 2 {
		lowMem = vf.Choose("low-memory-pool", 2) == 1
	}
	withJoin := vf.Param("join", 0) == 1
	twin := vf.Param("twin", 0) == 1

	w := &verifWorld{streamOf: map[int64]string{}, acked: map[int64]bool{}, dropped: map[int64]bool{}, committed: map[int64]int{},
		commitSeq: map[string][]int64{}, capacity: capacity}
	p := &Pipeline{settings: &Settings{Capacity: capacity, StreamField: "stream", AvgEventSize: 16}, eventLogMu: &sync.Mutex{},
		procCount: atomic.NewInt32(int32(nproc)), activeProcs: atomic.NewInt32(0)}
	p.actionMetrics = actionMetrics{m: map[string]*actionMetric{}, mu: &sync.RWMutex{}}
	// the pools' rescue heart-beat is scaled from 5 s to 400 ms to keep the idle phase short
	if lowMem {
		lp := newLowMemoryEventPool(capacity)
		lp.wakeupInterval = 400 * time.Millisecond
		p.eventPool = lp
	} else {
		sp := newEventPool(capacity, 16)
		sp.wakeupInterval = 400 * time.Millisecond
		p.eventPool = sp
	}
	w.pool = p.eventPool
	p.streamer = newStreamer(verifEventTimeout)
	p.input = &verifInput{w: w, refuse: vf.Param("refuse", 1) == 1}
	p.router = NewRouter()
	out := &verifOutput{}
	p.router.output = out
	out.b = NewBatcher(BatcherOptions{Controller: p, Workers: workers, BatchSizeCount: batchCount, FlushTimeout: verifFlush,
		OutFn: func(_ *WorkerData, batch *Batch) {
			var offs []int64
			batch.ForEach(func(e *Event) {
				offs = append(offs, e.Offset)
				if VerifRealOut != nil && vf.Param("real", 0) == 1 {
					VerifRealOut(e)
				}
			})
			vf.Yield() // the send takes time
			for _, o := range offs {
				w.acked[o] = true
			}
		}})
	out.b.workersWg.Add(workers)
	for i := 0; i < workers; i++ {
		go out.b.work()
	}
	go out.b.heartbeat()

	for i := 0; i < nproc; i++ {
		proc := newProcessor(i, &p.actionMetrics, p.activeProcs, p.router, p.streamer, p.finalize, p.IncMaxEventSizeExceeded, p.IncCountEventPanicsRecovered)
		filterInfo := &ActionPluginInfo{ActionPluginStaticInfo: &ActionPluginStaticInfo{PluginStaticInfo: &PluginStaticInfo{Type: "filter"}}, PluginRuntimeInfo: &PluginRuntimeInfo{Plugin: &verifFilter{w, vf.Param("filter", 1) == 1}}}
		joinInfo := &ActionPluginInfo{ActionPluginStaticInfo: &ActionPluginStaticInfo{PluginStaticInfo: &PluginStaticInfo{Type: "joiner"}}, PluginRuntimeInfo: &PluginRuntimeInfo{Plugin: &verifJoiner{w: w, ctl: proc}}}
		if vf.Param("match", 0) == 1 {
			// the multi-line action is selected by match_fields: only events with m == "1"
			joinInfo.MatchConditions = MatchConditions{{Field: []string{"m"}, Values: []string{"1"}}}
			joinInfo.MatchMode = MatchModeAnd
		}
		switch {
		case vf.Param("real", 0) == 1:
			inner, cfg := VerifRealAction()
			wrap := &verifWrap{w: w, inner: inner}
			params := &ActionPluginParams{Controller: proc, PluginDefaultParams: PluginDefaultParams{PipelineName: "t", PipelineSettings: p.settings}}
			if !vf.Symbolic() {
				params.Logger = zap.NewNop().Sugar()
			}
			wrap.Start(cfg, params)
			proc.AddActionPlugin(&ActionPluginInfo{ActionPluginStaticInfo: &ActionPluginStaticInfo{PluginStaticInfo: &PluginStaticInfo{Type: "real"}}, PluginRuntimeInfo: &PluginRuntimeInfo{Plugin: wrap}})
		case vf.Param("split", 0) == 1 && vf.Param("split-join", 0) == 1:
			// split followed by a multi-line action: the children run through the action that may already hold an event
			proc.AddActionPlugin(&ActionPluginInfo{ActionPluginStaticInfo: &ActionPluginStaticInfo{PluginStaticInfo: &PluginStaticInfo{Type: "splitter"}}, PluginRuntimeInfo: &PluginRuntimeInfo{Plugin: &verifSplitter{w: w, ctl: proc}}})
			proc.AddActionPlugin(joinInfo)
		case vf.Param("split", 0) == 1:
			proc.AddActionPlugin(&ActionPluginInfo{ActionPluginStaticInfo: &ActionPluginStaticInfo{PluginStaticInfo: &PluginStaticInfo{Type: "splitter"}}, PluginRuntimeInfo: &PluginRuntimeInfo{Plugin: &verifSplitter{w: w, ctl: proc}}})
			proc.AddActionPlugin(filterInfo)
		case !withJoin:
			proc.AddActionPlugin(filterInfo)
		case vf.Param("two-joins", 0) == 1:
			proc.AddActionPlugin(joinInfo)
			proc.AddActionPlugin(&ActionPluginInfo{ActionPluginStaticInfo: &ActionPluginStaticInfo{PluginStaticInfo: &PluginStaticInfo{Type: "joiner2"}}, PluginRuntimeInfo: &PluginRuntimeInfo{Plugin: &verifJoiner{w: w, ctl: proc}}})
		case vf.Param("filter-after-join", 0) == 1:
			proc.AddActionPlugin(joinInfo)
			proc.AddActionPlugin(filterInfo)
		default:
			proc.AddActionPlugin(filterInfo)
			proc.AddActionPlugin(joinInfo)
		}
		p.Procs = append(p.Procs, proc)
		go proc.process()
	}
	p.streamer.start()

	// the reader: K records of one source; at most one of them belongs to a second stream
	other := 0
	if vf.Param("STREAMS", 2) == 2 {
		other = vf.Choose("record-of-second-stream", K+1) // 0: none
	}
	readerDone := false
	go func() {
		for i := 1; i <= K; i++ {
			e := p.eventPool.get(1)
			vf.Atomic(func() { w.got++ })
			name := "a"
			if i == other {
				name = "b"
			}
			m := "1"
			if vf.Param("match", 0) == 1 && vf.Choose("matches-the-join-selector", 2) == 0 {
				m = "0"
			}
			doc := `{"stream":"` + name + `","m":"` + m + `"}`
			if vf.Param("split", 0) == 1 && vf.Choose("has-items", 2) == 1 {
				doc = `{"stream":"` + name + `","items":[{"i":1},{"i":2}]}`
				vf.Reach("split-event")
			}
			if vf.Param("real", 0) == 1 {
				doc = VerifRealDoc(i, name)
			}
			_ = e.Root.DecodeString(doc)
			e.Offset, e.SourceID, e.SourceName = int64(i), 1, "src"
			off := e.Offset
			vf.Atomic(func() {
				w.streamOf[off] = name
				w.order = append(w.order, off)
			})
			if p.streamEvent(e) == EventSeqIDError {
				// refused at the entrance: never part of the stream
				vf.Atomic(func() {
					w.order = w.order[:len(w.order)-1]
					delete(w.streamOf, off)
					w.got-- // the refused event went straight back to the pool
				})
				vf.Reach("refused-by-input")
			}
			// the source may go quiet for longer than the event time-out between two records
			if vf.Param("pauses", 0) == 1 && i < K && (vf.Param("script", 0) == 1 && i == 1 || vf.Param("script", 0) == 0 && vf.Choose("source-goes-quiet", 2) == 1) {
				time.Sleep(verifEventTimeout + 100*time.Millisecond)
				vf.Reach("quiet-period")
			}
		}
		readerDone = true
	}()

	vf.Quiesce(vf.Param("QUIET_MS", 1500)) // logical ms without any non-timer activity

	// C04 / C02: idle means everything accepted has ended exactly one way
	if twin {
		vf.Assert(!readerDone, "reader-never-wedged")
		return
	}
	vf.Assert(readerDone, "reader-never-wedged")
	for _, o := range w.order {
		vf.Assert(w.committed[o] == 1 || (w.dropped[o] && w.committed[o] == 0), "every-event-committed-once-or-dropped")
	}
	vf.Assert(p.eventPool.inUse() == 0, "in-use-returns-to-zero")
	if VerifRealIdle != nil && (vf.Param("real", 0) == 1 || vf.Param("real-commit", 0) == 1) {
		VerifRealIdle()
	}
	vf.Reach("idle")
	if len(w.commitSeq["a"]) >= 2 || len(w.commitSeq["b"]) >= 2 {
		vf.Reach("two-commits-in-one-stream")
	}
}
