package pipeline

import (
	"github.com/ozontech/file.d/pipeline/antispam"
	"sync"
	"time"

	"github.com/ozontech/file.d/decoder"
	"go.uber.org/atomic"

	vf "github.com/ozontech/file.d/zzverif"
)

type verifRecord struct {
	data    string
	undecod bool   // the decoder must reject it
	want    string // encoding of the event when accepted
	// anyContent: the exact encoding is the subject of C12; here only that a valid object comes out
	anyContent bool
}

func verifRecordsFor(dec decoder.Type) []verifRecord {
	switch dec {
	case decoder.RAW:
		return []verifRecord{{data: "hello\n", want: `{"message":"hello"}`}, {data: "x\n", want: `{"message":"x"}`}, {data: "a\"b\n", want: `{"message":"a\"b"}`}}
	case decoder.JSON:
		return []verifRecord{{data: `{"a":1,"b":"x"}` + "\n", want: `{"a":1,"b":"x"}`}, {data: `{"c":[1,2]}` + "\n", want: `{"c":[1,2]}`},
			{data: `{"a":` + "\n", undecod: true}, {data: "not json\n", undecod: true}}
	case decoder.CSV:
		return []verifRecord{{data: "a,b,c\n", want: `{"0":"a","1":"b","2":"c"}`}, {data: "x,y\n", want: `{"0":"x","1":"y"}`},
			{data: "q\"r\n", undecod: true}}
	case decoder.POSTGRES:
		return []verifRecord{{data: "2021-06-22 16:24:27 GMT [7291] => [3-1] client=c,db=d,user=u LOG:  hi\n", anyContent: true},
			{data: "\tSELECT 1\n", undecod: true}, {data: "garbage\n", undecod: true}, {data: "\t\n", undecod: true}}
	case decoder.SYSLOG_RFC3164:
		return []verifRecord{{data: "<34>Oct 11 22:14:15 mymachine.example.com myproc[10]: failed\n", anyContent: true}, {data: "garbage\n", undecod: true}, {data: "<34>\n", undecod: true}}
	case decoder.SYSLOG_RFC5424:
		return []verifRecord{{data: "<165>1 2003-10-11T22:14:15.003Z host app - ID47 [ex@1 k=\"v\"] msg\n", anyContent: true}, {data: "garbage\n", undecod: true}, {data: "<165>1 \n", undecod: true}}
	case decoder.NGINX_ERROR:
		return []verifRecord{{data: "2022/08/17 10:49:27 [error] 1#2: *3 msg\n", want: `{"time":"2022/08/17 10:49:27","level":"error","pid":"1","tid":"2","cid":"3","message":"msg"}`},
			{data: "garbage\n", undecod: true}}
	}
	return nil
}

// C20.H2 / C05.H3 / C12: Pipeline.In: refusal causes, exit paths and the decoded event, with the
// event object recycled through the pool between records.
func VerifH_C20_inRefusals() {
	decs := []decoder.Type{decoder.RAW, decoder.JSON, decoder.CSV, decoder.NGINX_ERROR, decoder.POSTGRES, decoder.SYSLOG_RFC3164, decoder.SYSLOG_RFC5424}
	dec := decs[vf.Param("DECMIN", 0)+vf.Choose("decoder", len(decs)-vf.Param("DECMIN", 0))]
	lowMem := vf.Choose("low-memory-pool", 2) == 1
	maxSize := []int{0, 8}[vf.Choose("max-event-size", 2)]
	cut := maxSize != 0 && vf.Choose("cut-off", 2) == 1
	K := vf.Param("K", 2)
	twin := vf.Param("twin", 0) == 1

	w := &verifWorld{streamOf: map[int64]string{}, acked: map[int64]bool{}, dropped: map[int64]bool{}, committed: map[int64]int{}, commitSeq: map[string][]int64{}, capacity: 1}
	p := &Pipeline{settings: &Settings{Capacity: 1, MaxEventSize: maxSize, CutOffEventByLimit: cut, CutOffEventByLimitField: "cut", Antispam: AntispamSettings{Threshold: -1}},
		eventLogMu: &sync.Mutex{}, procCount: atomic.NewInt32(1), activeProcs: atomic.NewInt32(0), decoderType: dec}
	if dec != decoder.RAW && dec != decoder.POSTGRES {
		var err error
		p.decoder, err = decoder.New(dec, nil)
		if err != nil {
			vf.Fail("decoder-construction")
			return
		}
	}
	if lowMem {
		p.eventPool = newLowMemoryEventPool(1)
	} else {
		p.eventPool = newEventPool(1, 64)
	}
	p.streamer = newStreamer(verifEventTimeout)
	in := &verifInput{w: w, refuse: true}
	p.input = in
	// with the antispam enabled (threshold far away) and per-stream saved offsets handed in by the input,
	// as file / k8s do after a restart: for these decoders nothing but the input decides "already committed"
	var saved SliceMap
	if vf.Choose("antispam-enabled", 2) == 1 {
		p.settings.Antispam = AntispamSettings{Threshold: 10, MaintenanceInterval: time.Second}
		p.antispamer = antispam.VerifNewAntispammer(&antispam.Options{Threshold: 10, MaintenanceInterval: time.Second, UnbanIterations: 1})
		saved = SliceFromMap(map[StreamName]int64{"not_set": 100, "lagging": 1})
	}
	recs := verifRecordsFor(dec)
	recs = append(recs, verifRecord{data: ""}, verifRecord{data: "\n"})
	for i := 0; i < K; i++ {
		r := recs[vf.Choose("record", len(recs))]
		empty := r.data == "" || r.data == "\n"
		over := maxSize != 0 && len(r.data) > maxSize
		buf := append([]byte(r.data), "NEXT"...) // the record sits inside a larger read buffer
		refusedBefore := in.refusals
		seq := p.In(1, "src", NewOffsets(int64(i+1), saved), buf[:len(r.data):len(buf)], false, nil)
		refusedByInput := in.refusals > refusedBefore
		accepted := seq != EventSeqIDError
		if over && cut {
			// the cut record is decoded instead: only the structural guarantees are checked
			if accepted {
				verifDrain(p, "", true)
			}
			vf.Assert(p.eventPool.inUse() == 0, "event-returned-on-every-exit-path")
			continue
		}
		wantAccepted := !empty && !over && !r.undecod && !refusedByInput
		if twin {
			vf.Assert(accepted != wantAccepted, "refused-only-for-the-listed-causes")
			continue
		}
		vf.Assert(accepted == wantAccepted, "refused-only-for-the-listed-causes")
		if !over {
			vf.Assert(string(buf[len(r.data):]) == "NEXT", "caller-buffer-beyond-the-record-untouched")
		}
		if accepted {
			verifDrain(p, r.want, r.anyContent)
			vf.Reach("accepted-and-decoded")
		} else {
			vf.Reach("refused")
		}
		vf.Assert(p.eventPool.inUse() == 0, "event-returned-on-every-exit-path")
	}
}

// verifDrain takes the accepted event out of its stream like a processor would, checks its
// content and finalizes it (back to the pool).
func verifDrain(p *Pipeline, want string, structuralOnly bool) {
	st := p.streamer.joinStream()
	e := st.instantGet()
	vf.Assert(e != nil, "accepted-event-is-in-its-stream")
	if e == nil {
		return
	}
	got := e.Root.EncodeToString()
	vf.Observe("event", got)
	if !structuralOnly {
		vf.Assert(got == want, "decoded-event-is-exactly-the-record")
	}
	p.finalize(e, false, true)
	vf.Assert(st.instantGet() == nil, "stream-holds-the-event-once")
}

// C20.H3d: the pipeline's antispam maintenance goroutine keeps running while the pipeline is idle: a
// banned source that falls silent (nothing else is admitted either) is unbanned.
func VerifH_C20_maintenanceWhileIdle() {
	unban := 1 + vf.Choose("unban-iterations", 2)
	p := &Pipeline{settings: &Settings{Antispam: AntispamSettings{MaintenanceInterval: time.Second}}}
	p.antispamer = antispam.VerifNewAntispammer(&antispam.Options{MaintenanceInterval: time.Second, Threshold: 2, UnbanIterations: unban})
	go p.antispammerMaintenance()
	now := time.Now()
	spam := false
	for i := 0; i < 2+vf.Choose("extra-while-banned", 3); i++ {
		spam = p.antispamer.IsSpam("7", "src", false, []byte("e"), now, nil)
	}
	vf.Assert(spam, "banned-at-threshold")
	// silence; refused records are not counted as input, so the pipeline looks idle
	time.Sleep(time.Duration(unban+2) * time.Second)
	spam = p.antispamer.IsSpam("7", "src", false, []byte("e"), time.Now(), nil)
	p.shouldStop.Store(true)
	if vf.Param("twin", 0) == 1 {
		vf.Assert(spam, "unbanned-after-silence-while-idle")
		return
	}
	vf.Assert(!spam, "unbanned-after-silence-while-idle")
	vf.Reach("unbanned")
}

// C20.H2b: Pipeline.In with source_name_meta_field: the antispam counts per logical source named by the
// metadata (e.g. one pod among many behind one input source), so a noisy logical source is refused from the
// threshold on while a quiet one on the same input source keeps being admitted.
func VerifH_C20_antispamMetaSource() {
	threshold := 2 + vf.Choose("threshold", 2)
	p := &Pipeline{settings: &Settings{Capacity: 2, SourceNameMetaField: "pod", Antispam: AntispamSettings{Threshold: threshold, MaintenanceInterval: time.Hour}},
		eventLogMu: &sync.Mutex{}, procCount: atomic.NewInt32(1), activeProcs: atomic.NewInt32(0), decoderType: decoder.RAW}
	p.eventPool = newEventPool(2, 64)
	p.streamer = newStreamer(verifEventTimeout)
	w := &verifWorld{streamOf: map[int64]string{}, acked: map[int64]bool{}, dropped: map[int64]bool{}, committed: map[int64]int{}, commitSeq: map[string][]int64{}, capacity: 2}
	p.input = &verifInput{w: w}
	p.antispamer = antispam.VerifNewAntispammer(&antispam.Options{Threshold: threshold, MaintenanceInterval: time.Hour, UnbanIterations: 1})
	sent := map[string]int{}
	K := vf.Param("K", 6)
	for i := 0; i < K; i++ {
		pod := []string{"noisy", "quiet"}[vf.Choose("pod", 2)]
		withMeta := vf.Choose("has-meta", 4) != 0 // now and then a record without the metadata key: counted under the input source itself
		var meta map[string]string
		key := "#src"
		if withMeta {
			meta = map[string]string{"pod": pod}
			key = pod
		}
		sent[key]++
		seq := p.In(1, "src", NewOffsets(int64(i+1), nil), []byte("x\n"), false, meta)
		accepted := seq != EventSeqIDError
		if vf.Param("twin", 0) == 1 {
			vf.Assert(accepted == (sent[key] >= threshold), "admitted-below-the-threshold-of-its-own-logical-source")
			continue
		}
		// the record that reaches the threshold and everything after it is refused; below it, admitted
		vf.Assert(accepted == (sent[key] < threshold), "admitted-below-the-threshold-of-its-own-logical-source")
		if accepted {
			verifDrain(p, "", true)
		} else {
			vf.Reach("refused-as-spam")
		}
	}
}
