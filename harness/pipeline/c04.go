package pipeline

import (
	vf "github.com/ozontech/file.d/zzverif"
)

// C04.H1/H2 + C05.H1: both event pools: readers block at capacity and resume within a bounded
// time once capacity is free; never more events out than the capacity; no event held twice.
func VerifH_C04_pool() {
	lowMem := vf.Choose("low-memory-pool", 2) == 1
	if k := vf.Param("kind", -1); k >= 0 {
		lowMem = k == 1
	}
	capacity := 1 + vf.Choose("capacity", vf.Param("CAP", 2))
	readers := 2 + vf.Choose("readers", vf.Param("R", 1))
	twin := vf.Param("twin", 0) == 1
	var pl pool
	if lowMem {
		pl = newLowMemoryEventPool(capacity)
	} else {
		pl = newEventPool(capacity, 16)
	}
	held := map[*Event]bool{}
	nHeld := 0
	done := 0
	waves := vf.Param("waves", 1)
	for wv := 0; wv < waves; wv++ {
		// a later wave starts after the pool has been idle for two heart-beat periods
		for r := 0; r < readers; r++ {
			go func() {
				e := pl.get(1)
				vf.Atomic(func() {
					vf.Assert(!held[e], "event-not-handed-out-twice")
					held[e] = true
					nHeld++
					vf.Assert(nHeld <= capacity, "in-flight-within-capacity")
					if nHeld == capacity {
						vf.Reach("pool-full")
					}
				})
				vf.Yield() // the event travels through the pipeline
				vf.Atomic(func() {
					delete(held, e)
					nHeld--
				})
				pl.back(e)
				done++
			}()
		}
		vf.Quiesce(vf.Param("QUIET_MS", 11000)) // two pool heart-beat periods (5 s) without any other activity
	}
	readers *= waves
	if twin {
		vf.Assert(done != readers, "every-reader-resumed")
		return
	}
	vf.Assert(done == readers, "every-reader-resumed")
	vf.Assert(pl.inUse() == 0, "in-use-returns-to-zero")
	pl.stop()
	vf.Reach("idle")
}

// C04.L: the streamer's list of blocked streams (the heartbeat sends time-outs to exactly these)
// stays consistent under every sequence of block / unblock operations.
func VerifH_C04_blockedList() {
	s := newStreamer(verifEventTimeout)
	n := vf.Param("STREAMS", 3)
	streams := make([]*stream, n)
	for i := range streams {
		streams[i] = newStream(StreamName(string(rune('a'+i))), StreamID(i), s)
		streams[i].blockIndex = -1
	}
	blocked := map[int]bool{}
	for step := 0; step < vf.Param("K", 6); step++ {
		i := vf.Choose("stream", n)
		if blocked[i] {
			s.resetBlocked(streams[i])
			delete(blocked, i)
		} else {
			s.makeBlocked(streams[i])
			blocked[i] = true
		}
		if vf.Param("twin", 0) == 1 {
			vf.Assert(len(s.blocked) != len(blocked), "blocked-list-size")
			continue
		}
		vf.Assert(len(s.blocked) == len(blocked), "blocked-list-size")
		for j := range blocked {
			st := streams[j]
			vf.Assert(st.blockIndex >= 0 && st.blockIndex < len(s.blocked) && s.blocked[st.blockIndex] == st, "blocked-stream-is-listed-at-its-index")
		}
		if len(blocked) == n {
			vf.Reach("all-blocked")
		}
	}
}

// C05.S: size classes of the low-memory pool: every record size below 4 GiB maps to an existing pool,
// monotonically, and an event goes back to the pool it came from.
func VerifH_C05_poolSizeClasses() {
	size := vf.Int("size", 0, 1<<32-1)
	idx := poolIndex(size)
	if vf.Param("twin", 0) == 1 {
		vf.Assert(idx >= syncPools, "size-class-exists")
		return
	}
	vf.Assert(idx >= 0 && idx < syncPools, "size-class-exists")
	other := vf.Int("other-size", 0, 1<<32-1)
	if other <= size {
		vf.Assert(poolIndex(other) <= idx, "size-classes-are-monotone")
	}
	// the class boundaries are the powers of two
	vf.Assert(size == 0 || (size >= 1<<(idx-1) && (idx == 63 || size < 1<<idx)), "class-is-the-bit-length")
	pl := newLowMemoryEventPool(1)
	e := pl.get(size)
	vf.Assert(e.Size == size, "event-remembers-its-size")
	pl.back(e)
	vf.Assert(pl.inUse() == 0, "in-use-returns-to-zero")
	vf.Reach("size-class-checked")
}
