package pipeline

import (
	"regexp"

	insaneJSON "github.com/ozontech/insane-json"

	vf "github.com/ozontech/file.d/zzverif"
)

// replaces (*regexp.Regexp).MatchString: a symbolic verdict per call (the regexp engine is trusted)
var verifReVerdicts []bool

func verifStubMatchString(re *regexp.Regexp, s string) bool {
	v := vf.Bool("regexp-matches")
	verifReVerdicts = append(verifReVerdicts, v)
	return v
}

func verifSymStr(name string, maxLen int) string {
	k := vf.Choose(name+"-len", maxLen+1)
	b := vf.Bytes(name, k)
	for _, c := range b {
		vf.Assume(c >= 0x20 && c < 0x7f && c != '"' && c != '\\')
	}
	return string(b)
}

func verifHasPrefix(s, p string) bool {
	if len(s) < len(p) {
		return false
	}
	ok := true
	for i := 0; i < len(p); i++ {
		ok = vf.And(ok, s[i] == p[i])
	}
	return ok
}

func verifStrEq(a, b string) bool { return len(a) == len(b) && verifHasPrefix(a, b) }

// C14.H3: legacy match_fields: and / or / and_prefix / or_prefix over exact, prefix and regexp conditions, with inversion.
func VerifH_C14_matchFields() {
	mode := MatchMode(vf.Choose("mode", 4))
	invert := vf.Choose("invert", 2) == 1
	ncond := 1 + vf.Choose("conds", vf.Param("C", 2))
	byPrefix := mode == MatchModeAndPrefix || mode == MatchModeOrPrefix
	isOr := mode == MatchModeOr || mode == MatchModeOrPrefix

	fields := []string{"f0", "f1"}
	root := insaneJSON.Spawn()
	_ = root.DecodeString(`{}`)
	conds := make(MatchConditions, ncond)
	present := make([]bool, ncond)
	values := make([]string, ncond)
	isRe := make([]bool, ncond)
	for i := 0; i < ncond; i++ {
		conds[i].Field = []string{fields[i]}
		isRe[i] = vf.Choose("kind", 2) == 1
		if isRe[i] {
			conds[i].Regexp = regexp.MustCompile("x")
		} else {
			nv := 1 + vf.Choose("nvalues", 2)
			for j := 0; j < nv; j++ {
				conds[i].Values = append(conds[i].Values, verifSymStr("cond-value", vf.Param("VL", 2)))
			}
		}
		present[i] = vf.Choose("present", 2) == 1
		if present[i] {
			values[i] = verifSymStr("event-value", vf.Param("VL", 2))
			root.AddFieldNoAlloc(root, fields[i]).MutateToString(values[i])
		}
	}
	p := &processor{actionInfos: []*ActionPluginStaticInfo{{MatchConditions: conds, MatchMode: mode, MatchInvert: invert}}}
	verifReVerdicts = nil
	got := p.isMatch(0, &Event{Root: root})

	// reference: the documented meaning; the regexp verdicts are consumed in evaluation order
	reIdx := 0
	condHolds := func(i int) bool {
		if !present[i] {
			return false
		}
		if isRe[i] {
			if reIdx < len(verifReVerdicts) {
				v := verifReVerdicts[reIdx]
				reIdx++
				return v
			}
			return vf.Bool("unevaluated-regexp") // short-circuited away: any verdict
		}
		m := false
		for _, v := range conds[i].Values {
			if byPrefix {
				m = vf.Or(m, verifHasPrefix(values[i], v))
			} else {
				m = vf.Or(m, verifStrEq(values[i], v))
			}
		}
		return m
	}
	want := !isOr
	for i := 0; i < ncond; i++ {
		h := condHolds(i)
		if isOr {
			want = vf.Or(want, h)
		} else {
			want = vf.And(want, h)
		}
	}
	if invert {
		want = !want
	}
	if vf.Param("twin", 0) == 1 {
		vf.Assert(got != want, "match-fields-semantics")
		return
	}
	vf.Assert(got == want, "match-fields-semantics")
	if got && !invert {
		vf.Reach("matched")
	}
}
