package pipeline

import (
	"sync"
	"time"

	"go.uber.org/atomic"
	"go.uber.org/zap"

	vf "github.com/ozontech/file.d/zzverif"
)

// C04.H6: every processor is parked behind an open multi-line message (stream a keeps receiving
// continuation lines more often than the event time-out). A record of another stream must not wait for
// that message to end: the pipeline's growProcs adds processors, so the record is finalized within a
// bound that does not depend on how long the multi-line message stays open.
func VerifH_C04_growProcs() {
	w := &verifWorld{streamOf: map[int64]string{}, acked: map[int64]bool{}, dropped: map[int64]bool{}, committed: map[int64]int{},
		commitSeq: map[string][]int64{}, capacity: 8, commitAt: map[int64]int64{}}
	p := &Pipeline{settings: &Settings{Capacity: 8, StreamField: "stream"}, eventLogMu: &sync.Mutex{},
		procCount: atomic.NewInt32(1), activeProcs: atomic.NewInt32(0)}
	if !vf.Symbolic() {
		p.logger = zap.NewNop()
	}
	p.actionMetrics = actionMetrics{m: map[string]*actionMetric{}, mu: &sync.RWMutex{}}
	p.eventPool = newEventPool(8, 16)
	w.pool = p.eventPool
	p.streamer = newStreamer(verifEventTimeout)
	p.input = &verifInput{w: w}
	p.router = NewRouter()
	out := &verifOutput{}
	p.router.output = out
	out.b = NewBatcher(BatcherOptions{Controller: p, Workers: 1, BatchSizeCount: 1, FlushTimeout: verifFlush,
		OutFn: func(_ *WorkerData, batch *Batch) {
			batch.ForEach(func(e *Event) { w.acked[e.Offset] = true })
		}})
	out.b.workersWg.Add(1)
	go out.b.work()
	go out.b.heartbeat()
	p.actionInfos = []*ActionPluginStaticInfo{{PluginStaticInfo: &PluginStaticInfo{Type: "joiner",
		Factory: func() (AnyPlugin, AnyConfig) { return &verifJoiner{w: w}, nil }}}}
	nproc := vf.Param("PROCS0", 1)
	p.procCount.Store(int32(nproc))
	for i := 0; i < nproc; i++ {
		proc := p.newProc(i)
		p.Procs = append(p.Procs, proc)
		proc.start(p.actionParams, p.logger.Sugar())
	}
	p.streamer.start()
	go p.growProcs()

	put := func(off int64, stream string) {
		e := p.eventPool.get(1)
		w.got++
		_ = e.Root.DecodeString(`{"stream":"` + stream + `"}`)
		e.Offset, e.SourceID, e.SourceName = off, 1, "src"
		w.streamOf[off] = stream
		w.order = append(w.order, off)
		p.streamEvent(e)
	}
	var bPutAt int64
	if vf.Param("GAP", 50) == 0 && vf.Choose("b-first", 2) == 1 {
		bPutAt = vf.Now()
		put(2, "b")
		put(1, "a")
	} else {
		put(1, "a") // opens a multi-line message: a processor parks behind it
		if gap := vf.Param("GAP", 50); gap > 0 {
			time.Sleep(time.Duration(gap) * time.Millisecond)
		}
		bPutAt = vf.Now()
		put(2, "b")
	}
	n := 2 + vf.Choose("continuation-lines", vf.Param("CONT", 3))
	for i := 0; i < n; i++ {
		time.Sleep(200 * time.Millisecond) // more often than the event time-out (300 ms): stream a never times out meanwhile
		put(int64(3+i), "a")
	}
	vf.Quiesce(1500)
	p.shouldStop.Store(true)
	if vf.Param("twin", 0) == 1 {
		vf.Assert(w.committed[2] == 0, "record-of-another-stream-is-finalized")
		return
	}
	vf.Assert(w.committed[2] == 1, "record-of-another-stream-is-finalized")
	// growProcs reacts within two of its 100 ms periods; the bound is far below the time the open message lasts
	vf.Assert(w.commitAt[2]-bPutAt <= int64(350*time.Millisecond), "record-of-another-stream-does-not-wait-for-the-open-multi-line-message")
	for _, o := range w.order {
		vf.Assert(w.committed[o] == 1 || (w.dropped[o] && w.committed[o] == 0), "every-event-committed-once-or-dropped")
	}
	vf.Reach("processors-grown")
}
