package substitution

import (
	"errors"
	"regexp"

	vf "github.com/ozontech/file.d/zzverif"
)

var (
	verifSrcLen  int
	verifLastIdx [][]int
)

// replaces (*regexp.Regexp).FindAllSubmatchIndex: 0..2 matches of a regexp with two groups, the
// second optional (may not take part in the match), at arbitrary positions
func verifStubFind(re *regexp.Regexp, b []byte, n int) [][]int {
	var out [][]int
	prev := 0
	for k := 0; k < vf.Choose("matches", vf.Param("M", 1)+1); k++ {
		s0 := vf.Int("m-start", prev, verifSrcLen)
		e0 := vf.Int("m-end", s0, verifSrcLen)
		s1 := vf.Int("g1-start", s0, e0)
		e1 := vf.Int("g1-end", s1, e0)
		s2, e2 := -1, -1
		if vf.Choose("g2-participates", 2) == 1 {
			s2 = vf.Int("g2-start", e1, e0)
			e2 = vf.Int("g2-end", s2, e0)
		}
		out = append(out, []int{s0, e0, s1, e1, s2, e2})
		prev = e0
	}
	verifLastIdx = out
	cp := make([][]int, len(out))
	for i := range out {
		cp[i] = append([]int(nil), out[i]...)
	}
	return cp
}

// C13 (modify action): the regex filter of a substitution, with groups that may not take part in a match.
func VerifH_C13_regexFilter() {
	n := 1 + vf.Choose("len", vf.Param("N", 3))
	src := vf.Bytes("src", n)
	verifSrcLen = n
	groupSets := [][]int{{1}, {2}, {1, 2}, {2, 1}, {0}}
	groups := groupSets[vf.Choose("groups", len(groupSets))]
	sep := []byte(nil)
	if vf.Choose("separator", 2) == 1 {
		sep = []byte(",")
	}
	f := &RegexFilter{re: regexp.MustCompile("(a)(b)?"), limit: -1, groups: groups, separator: sep, emptyOnNotMatched: vf.Choose("empty-on-not-matched", 2) == 1}
	before := append([]byte(nil), src...)
	dst := append([]byte(nil), src...)
	out := f.Apply(src, dst)
	vf.Assert(vf.SameBytes(src, before), "source-unchanged")
	if vf.Param("twin", 0) == 1 {
		vf.Assert(len(verifLastIdx) > 0 && len(out) == 0 && false, "twin")
		return
	}
	if len(verifLastIdx) == 0 {
		if f.emptyOnNotMatched {
			vf.Assert(len(out) == 0, "empty-on-not-matched")
		} else {
			vf.Assert(vf.SameBytes(out, before), "unchanged-when-not-matched")
		}
		return
	}
	var want []byte
	for _, m := range verifLastIdx {
		for _, g := range groups {
			s, e := m[2*g], m[2*g+1]
			if s == -1 || e == -1 {
				continue
			}
			if len(sep) > 0 && len(want) != 0 {
				want = append(want, sep...)
			}
			want = append(want, before[s:e]...)
		}
	}
	vf.Assert(vf.SameBytes(out, want), "output-is-the-selected-groups-in-order")
	vf.Reach("filtered")
}

// constructors for the modify harness (filter fields are unexported)
func VerifNewCutFilter(last bool, count int) FieldFilter {
	m := cutModeFirst
	if last {
		m = cutModeLast
	}
	return &CutFilter{mode: m, count: count}
}

func VerifNewTrimFilter(mode int, cutset string) FieldFilter {
	return &TrimFilter{mode: trimMode(mode), cutset: cutset}
}

func VerifNewTrimToFilter(mode int, cutset string) FieldFilter {
	return &TrimToFilter{mode: trimMode(mode), cutset: []byte(cutset)}
}

// replaces encoding/json.Unmarshal for the argument shapes a filter specification uses
// (a quoted string without escapes, an integer, a list of integers, a bool); reflection is not encoded
func verifStubUnmarshal(data []byte, v any) error {
	s := string(data)
	atoi := func(t string) (int, bool) {
		neg := false
		if len(t) > 0 && t[0] == '-' {
			neg, t = true, t[1:]
		}
		if len(t) == 0 {
			return 0, false
		}
		n := 0
		for i := 0; i < len(t); i++ {
			if t[i] < '0' || t[i] > '9' {
				return 0, false
			}
			n = n*10 + int(t[i]-'0')
		}
		if neg {
			n = -n
		}
		return n, true
	}
	switch p := v.(type) {
	case *string:
		if len(s) < 2 || s[0] != '"' || s[len(s)-1] != '"' {
			return errVerifJSON
		}
		*p = s[1 : len(s)-1]
	case *int:
		n, ok := atoi(s)
		if !ok {
			return errVerifJSON
		}
		*p = n
	case *bool:
		*p = s == "true"
	case *[]int:
		if len(s) < 2 || s[0] != '[' || s[len(s)-1] != ']' {
			return errVerifJSON
		}
		*p = nil
		cur := ""
		for i := 1; i < len(s); i++ {
			if s[i] == ',' || s[i] == ']' {
				if cur != "" {
					n, ok := atoi(cur)
					if !ok {
						return errVerifJSON
					}
					*p = append(*p, n)
				}
				cur = ""
			} else if s[i] != ' ' {
				cur += string(s[i])
			}
		}
	default:
		return errVerifJSON
	}
	return nil
}

var errVerifJSON = errors.New("verif: not the expected JSON shape")

// C13 (modify action): a regex filter built by the real specification parser from every group list its
// validation lets through (including lists with group 0 next to other numbers) never indexes outside
// the match when it is applied.
func VerifH_C13_regexFilterFromSpec() {
	// the regexp has two groups; these lists pass cfg.VerifyGroupNumbers as it is written
	lists := []string{"[1]", "[2]", "[1,2]", "[0]", "[0,1]", "[1,0]", "[0,5]", "[2,0]"}
	spec := `re("(a)(b)?",-1,` + lists[vf.Choose("groups", len(lists))] + `,"|")`
	f, _, err := parseRegexFilter(spec, 0, nil)
	if err != nil {
		vf.Fail("specification-accepted")
		return
	}
	n := 1 + vf.Choose("len", vf.Param("N", 3))
	src := vf.Bytes("src", n)
	verifSrcLen = n
	out := f.Apply(src, append([]byte(nil), src...))
	if vf.Param("twin", 0) == 1 {
		vf.Assert(len(out) > 2*n+8, "twin")
		return
	}
	vf.Assert(len(out) <= 2*n+8, "filter-output-bounded")
	vf.Reach("applied")
}
