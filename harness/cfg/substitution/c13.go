package substitution

import (
	"regexp"

	vf "github.com/ozontech/file.d/zzverif"
)

var (
	verifSrcLen  int
	verifLastIdx [][]int
)

// replaces (*regexp.Regexp).FindAllSubmatchIndex: 0..2 matches of a regexp with two groups, the
// second optional (may not take part in the match), at arbitrary positions
func verifStubFind(re *regexp.Regexp, b []byte, n int) [][]int {
	var out [][]int
	prev := 0
	for k := 0; k < vf.Choose("matches", vf.Param("M", 1)+1); k++ {
		s0 := vf.Int("m-start", prev, verifSrcLen)
		e0 := vf.Int("m-end", s0, verifSrcLen)
		s1 := vf.Int("g1-start", s0, e0)
		e1 := vf.Int("g1-end", s1, e0)
		s2, e2 := -1, -1
		if vf.Choose("g2-participates", 2) == 1 {
			s2 = vf.Int("g2-start", e1, e0)
			e2 = vf.Int("g2-end", s2, e0)
		}
		out = append(out, []int{s0, e0, s1, e1, s2, e2})
		prev = e0
	}
	verifLastIdx = out
	cp := make([][]int, len(out))
	for i := range out {
		cp[i] = append([]int(nil), out[i]...)
	}
	return cp
}

// C13 (modify action): the regex filter of a substitution, with groups that may not take part in a match.
func VerifH_C13_regexFilter() {
	n := 1 + vf.Choose("len", vf.Param("N", 3))
	src := vf.Bytes("src", n)
	verifSrcLen = n
	groupSets := [][]int{{1}, {2}, {1, 2}, {2, 1}, {0}}
	groups := groupSets[vf.Choose("groups", len(groupSets))]
	sep := []byte(nil)
	if vf.Choose("separator", 2) == 1 {
		sep = []byte(",")
	}
	f := &RegexFilter{re: regexp.MustCompile("(a)(b)?"), limit: -1, groups: groups, separator: sep, emptyOnNotMatched: vf.Choose("empty-on-not-matched", 2) == 1}
	before := append([]byte(nil), src...)
	dst := append([]byte(nil), src...)
	out := f.Apply(src, dst)
	vf.Assert(vf.SameBytes(src, before), "source-unchanged")
	if vf.Param("twin", 0) == 1 {
		vf.Assert(len(verifLastIdx) > 0 && len(out) == 0 && false, "twin")
		return
	}
	if len(verifLastIdx) == 0 {
		if f.emptyOnNotMatched {
			vf.Assert(len(out) == 0, "empty-on-not-matched")
		} else {
			vf.Assert(vf.SameBytes(out, before), "unchanged-when-not-matched")
		}
		return
	}
	var want []byte
	for _, m := range verifLastIdx {
		for _, g := range groups {
			s, e := m[2*g], m[2*g+1]
			if s == -1 || e == -1 {
				continue
			}
			if len(sep) > 0 && len(want) != 0 {
				want = append(want, sep...)
			}
			want = append(want, before[s:e]...)
		}
	}
	vf.Assert(vf.SameBytes(out, want), "output-is-the-selected-groups-in-order")
	vf.Reach("filtered")
}

// constructors for the modify harness (filter fields are unexported)
func VerifNewCutFilter(last bool, count int) FieldFilter {
	m := cutModeFirst
	if last {
		m = cutModeLast
	}
	return &CutFilter{mode: m, count: count}
}

func VerifNewTrimFilter(mode int, cutset string) FieldFilter {
	return &TrimFilter{mode: trimMode(mode), cutset: cutset}
}

func VerifNewTrimToFilter(mode int, cutset string) FieldFilter {
	return &TrimToFilter{mode: trimMode(mode), cutset: []byte(cutset)}
}
