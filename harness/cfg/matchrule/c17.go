package matchrule

import (
	vf "github.com/ozontech/file.d/zzverif"
)

func verifLower(c byte) byte {
	if c >= 'A' && c <= 'Z' {
		return c + 32
	}
	return c
}

func verifEqAt(data []byte, off int, v string, fold bool) bool {
	ok := true
	for i := 0; i < len(v); i++ {
		a, b := data[off+i], v[i]
		if fold {
			a, b = verifLower(a), verifLower(b)
		}
		ok = vf.And(ok, a == b)
	}
	return ok
}

// reference: does data match value v in the given mode
func verifRef(data []byte, v string, mode Mode, fold bool) bool {
	if len(data) < len(v) {
		return false
	}
	switch mode {
	case ModePrefix:
		return verifEqAt(data, 0, v, fold)
	case ModeSuffix:
		return verifEqAt(data, len(data)-len(v), v, fold)
	}
	found := false
	for off := 0; off+len(v) <= len(data); off++ {
		found = vf.Or(found, verifEqAt(data, off, v, fold))
	}
	return found
}

// C17 / C20: match rules (mask match_rules, antispam exceptions): prefix / contains / suffix over value
// lists of mixed lengths, case-insensitive, inverted, combined by and / or.
func VerifH_C17_matchRules() {
	valueSets := [][]string{{"ab"}, {"ab", "abcd"}, {"abcd", "b"}, {"Ab", "xyz"}, {"a", "ab", "abc"}}
	n := vf.Choose("len", vf.Param("N", 4)+1)
	data := vf.Bytes("data", n)
	for _, c := range data {
		vf.Assume(c < 0x80)
	}
	if data == nil {
		data = []byte{}
	}
	orig := append([]byte{}, data...)
	defer func() {
		// C20: matching (exceptions run on the record itself) must not alter the record
		vf.Assert(vf.SameBytes(data, orig), "record-not-altered-by-matching")
	}()
	mk := func(tag string, small bool) (Rule, bool) {
		nsets, fold := len(valueSets), false
		if small {
			nsets = 2 // rule sets: fewer shapes per rule
		} else {
			fold = vf.Choose(tag+"-fold", 2) == 1
		}
		vals := append([]string(nil), valueSets[vf.Choose(tag+"-values", nsets)]...)
		r := Rule{Values: append([]string(nil), vals...), Mode: Mode(vf.Choose(tag+"-mode", 3)), CaseInsensitive: fold, Invert: vf.Choose(tag+"-invert", 2) == 1}
		want := false
		for _, v := range vals {
			want = vf.Or(want, verifRef(data, v, r.Mode, r.CaseInsensitive))
		}
		if r.Invert {
			want = !want
		}
		return r, want
	}
	if vf.Choose("rule-set", 2) == 0 {
		r, want := mk("rule", false)
		r.Prepare()
		got := r.Match(data)
		if vf.Param("twin", 0) == 1 {
			vf.Assert(got != want, "rule-matches-iff-some-value-matches")
			return
		}
		vf.Assert(got == want, "rule-matches-iff-some-value-matches")
		if got {
			vf.Reach("rule-matched")
		}
		return
	}
	r1, w1 := mk("first", true)
	r2, w2 := mk("second", true)
	cond := Cond(vf.Choose("cond", 2))
	rs := RuleSet{Cond: cond, Rules: []Rule{r1, r2}}
	rs.Prepare()
	var got bool
	// rule sets are shared (antispam exceptions are matched from every input goroutine): matching must not write to them
	writes := vf.SharedWrites(rs, func() { got = rs.Match(data) })
	vf.Assert(writes == 0, "matching-does-not-write-to-the-shared-rule-set")
	want := vf.And(w1, w2)
	if cond == CondOr {
		want = vf.Or(w1, w2)
	}
	if vf.Param("twin", 0) == 1 {
		vf.Assert(got != want, "rule-set-combines-its-rules")
		return
	}
	vf.Assert(got == want, "rule-set-combines-its-rules")
	vf.Reach("rule-set-evaluated")
}

// C17 / C13 / C20: match rules on multi-byte text. Lower-casing can change the byte length of the compared
// window (KELVIN SIGN U+212A: 3 bytes -> "k": 1 byte; U+0130: 2 bytes -> 3 bytes), whatever the mode: a rule
// never crashes on such data, and the verdicts that do not depend on where a byte window cuts a character are
// the textbook ones.
func VerifH_C17_matchRulesUnicode() {
	cases := []struct {
		mode   Mode
		values []string
		data   string
		want   int // 1 true, 0 false, -1 only "does not crash"
	}{
		{ModeSuffix, []string{"id", "password"}, "sensor 1234 temp 300K 5K", 0},
		{ModeSuffix, []string{"k", "kk"}, "5KK", -1},
		{ModePrefix, []string{"k5", "kelvin"}, "KK5", -1},
		{ModePrefix, []string{"i", "istanbul"}, "İİİx", -1},
		{ModeSuffix, []string{"x", "istanbul"}, "xİİİ", -1},
		{ModeContains, []string{"k 5"}, "300K 5K", 1},
		{ModeSuffix, []string{"к"}, "ЁЛК", 1},   // "к" vs "ЁЛК"
		{ModePrefix, []string{"ёл"}, "ЁЛКА", 1}, // "ёл" vs "ЁЛКА"
		{ModeContains, []string{"лк"}, "ЁЛКА", 1},
		{ModeSuffix, []string{"ка", "zz"}, "ЁЛК", 0},
	}
	c := cases[vf.Choose("case", len(cases))]
	r := Rule{Mode: c.mode, CaseInsensitive: true, Values: append([]string(nil), c.values...), Invert: vf.Choose("invert", 2) == 1}
	r.Prepare()
	got := r.Match([]byte(c.data))
	if vf.Param("twin", 0) == 1 {
		vf.Assert(c.want < 0 || got == ((c.want == 1) == r.Invert), "twin")
		return
	}
	if c.want >= 0 {
		vf.Assert(got == ((c.want == 1) != r.Invert), "rule-verdict-on-multi-byte-text")
	}
	vf.Reach("unicode-rules-checked")
}
