package offset

import (
	"errors"
	"io"
	"os"

	vf "github.com/ozontech/file.d/zzverif"
)

var (
	verifTrace []string
	errVerifIO = errors.New("verif: i/o error")
	verifFile  = new(os.File)
)

func verifFail(what string) bool { return vf.Choose("fail-"+what, 2) == 1 }

// a small file-system model: content per name, one open handle with a write position
var (
	verifFS      map[string][]byte
	verifOpen    string
	verifOpenPos int
)

func verifStubCreate(name string) (*os.File, error) {
	return verifStubOpenFile(name, os.O_RDWR|os.O_CREATE|os.O_TRUNC, 0o666)
}

func verifStubOpenFile(name string, flag int, perm os.FileMode) (*os.File, error) {
	if verifFail("create") {
		verifTrace = append(verifTrace, "create-failed")
		return nil, errVerifIO
	}
	verifTrace = append(verifTrace, "create:"+name)
	if verifFS == nil {
		verifFS = map[string][]byte{}
	}
	if flag&os.O_TRUNC != 0 {
		verifFS[name] = nil
	}
	verifOpen, verifOpenPos = name, 0
	if flag&os.O_APPEND != 0 {
		verifOpenPos = len(verifFS[name])
	}
	return verifFile, nil
}

func verifStubWrite(f *os.File, b []byte) (int, error) {
	c := verifFS[verifOpen]
	for len(c) < verifOpenPos+len(b) {
		c = append(c, 0)
	}
	copy(c[verifOpenPos:], b)
	verifOpenPos += len(b)
	verifFS[verifOpen] = c
	return len(b), nil
}

func verifStubSync(f *os.File) error {
	if verifFail("sync") {
		verifTrace = append(verifTrace, "sync-failed")
		return errVerifIO
	}
	verifTrace = append(verifTrace, "sync")
	return nil
}

func verifStubClose(f *os.File) error {
	verifTrace = append(verifTrace, "close")
	if verifFail("close") {
		return errVerifIO
	}
	return nil
}

// replaces os.Remove (a clean-up on a failure path may remove files): the file is gone from the model
func verifStubRemove(name string) error {
	verifTrace = append(verifTrace, "remove:"+name)
	if _, ok := verifFS[name]; !ok {
		return os.ErrNotExist
	}
	delete(verifFS, name)
	return nil
}

func verifStubRename(from, to string) error {
	verifTrace = append(verifTrace, "rename:"+from+">"+to)
	if verifFS != nil {
		verifFS[to] = verifFS[from]
		delete(verifFS, from)
	}
	return nil
}

// the state callback of an input (journalctl / dmesg): its Save may fail half-way
type verifState struct{}

func (verifState) Load(io.Reader) error { return nil }
func (verifState) Save(w io.Writer) error {
	if verifFail("save") {
		verifTrace = append(verifTrace, "save-failed")
		return errVerifIO
	}
	verifTrace = append(verifTrace, "saved")
	_, err := w.Write([]byte("NEW"))
	return err
}

// C07.H4: generic offset.Save: temp file, write, fsync, rename; a failed step never replaces the good file.
func VerifH_C07_genericSave() {
	verifTrace = nil
	// a longer temp file may be left over from a save that failed or crashed before its rename
	verifFS = map[string][]byte{"state.yaml": []byte("GOOD")}
	if vf.Choose("leftover-temp-file", 2) == 1 {
		verifFS["state.yaml.tmp"] = []byte("OLDOLDOLD")
	}
	o := NewOffset("state.yaml")
	o.Callback = verifState{}
	err := o.Save()
	saved, synced, renamed := false, false, false
	for _, t := range verifTrace {
		switch {
		case t == "saved":
			saved = true
		case t == "sync":
			synced = saved
		case len(t) > 7 && t[:7] == "rename:":
			renamed = true
			if vf.Param("twin", 0) == 1 {
				vf.Assert(!saved, "rename-only-after-successful-save")
				continue
			}
			vf.Assert(t == "rename:state.yaml.tmp>state.yaml", "rename-temp-over-current")
			vf.Assert(saved, "rename-only-after-successful-save")
			vf.Assert(synced, "rename-only-after-fsync")
			vf.Assert(string(verifFS["state.yaml"]) == "NEW", "renamed-file-is-exactly-the-new-snapshot")
			vf.Reach("renamed")
		}
	}
	if !renamed {
		vf.Assert(err != nil, "failure-is-reported")
		vf.Assert(string(verifFS["state.yaml"]) == "GOOD", "failed-save-leaves-the-good-file")
	}
}
