package offset

import (
	"errors"
	"io"
	"os"

	vf "github.com/ozontech/file.d/zzverif"
)

var (
	verifTrace []string
	errVerifIO = errors.New("verif: i/o error")
	verifFile  = new(os.File)
)

func verifFail(what string) bool { return vf.Choose("fail-"+what, 2) == 1 }

func verifStubCreate(name string) (*os.File, error) {
	if verifFail("create") {
		verifTrace = append(verifTrace, "create-failed")
		return nil, errVerifIO
	}
	verifTrace = append(verifTrace, "create:"+name)
	return verifFile, nil
}

func verifStubSync(f *os.File) error {
	if verifFail("sync") {
		verifTrace = append(verifTrace, "sync-failed")
		return errVerifIO
	}
	verifTrace = append(verifTrace, "sync")
	return nil
}

func verifStubClose(f *os.File) error {
	verifTrace = append(verifTrace, "close")
	if verifFail("close") {
		return errVerifIO
	}
	return nil
}

func verifStubRename(from, to string) error {
	verifTrace = append(verifTrace, "rename:"+from+">"+to)
	return nil
}

// the state callback of an input (journalctl / dmesg): its Save may fail half-way
type verifState struct{}

func (verifState) Load(io.Reader) error { return nil }
func (verifState) Save(w io.Writer) error {
	if verifFail("save") {
		verifTrace = append(verifTrace, "save-failed")
		return errVerifIO
	}
	verifTrace = append(verifTrace, "saved")
	return nil
}

// C07.H4: generic offset.Save: temp file, write, fsync, rename; a failed step never replaces the good file.
func VerifH_C07_genericSave() {
	verifTrace = nil
	o := NewOffset("state.yaml")
	o.Callback = verifState{}
	err := o.Save()
	saved, synced, renamed := false, false, false
	for _, t := range verifTrace {
		switch {
		case t == "saved":
			saved = true
		case t == "sync":
			synced = saved
		case len(t) > 7 && t[:7] == "rename:":
			renamed = true
			if vf.Param("twin", 0) == 1 {
				vf.Assert(!saved, "rename-only-after-successful-save")
				continue
			}
			vf.Assert(t == "rename:state.yaml.tmp>state.yaml", "rename-temp-over-current")
			vf.Assert(saved, "rename-only-after-successful-save")
			vf.Assert(synced, "rename-only-after-fsync")
			vf.Reach("renamed")
		}
	}
	if !renamed {
		vf.Assert(err != nil, "failure-is-reported")
	}
}
