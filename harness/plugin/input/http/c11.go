package http

import (
	"errors"
	"github.com/klauspost/compress/gzip"
	"io"
	nethttp "net/http"
	"net/url"

	"github.com/ozontech/file.d/decoder"
	"github.com/ozontech/file.d/pipeline"
	"github.com/ozontech/file.d/pipeline/metadata"

	vf "github.com/ozontech/file.d/zzverif"
)

type verifIn struct {
	src  pipeline.SourceID
	data []byte
}

// recording controller
type verifCtl struct {
	calls []verifIn
	onIn  func(id pipeline.SourceID, data []byte) // optional hook (scheduling point / monitors)
}

func (c *verifCtl) In(id pipeline.SourceID, name string, off pipeline.Offsets, data []byte, isNew bool, _ metadata.MetaData) uint64 {
	if c.onIn != nil {
		c.onIn(id, data)
	}
	c.calls = append(c.calls, verifIn{id, append([]byte(nil), data...)})
	return uint64(len(c.calls))
}
func (c *verifCtl) UseSpread()                            {}
func (c *verifCtl) DisableStreams()                       {}
func (c *verifCtl) SuggestDecoder(t decoder.Type)         {}
func (c *verifCtl) IncReadOps()                           {}
func (c *verifCtl) IncMaxEventSizeExceeded(lvs ...string) {}

var errVerifRead = errors.New("verif: transport error")

// the transport: arbitrary chunking of the body, including empty reads,
// (n>0, EOF) on the last chunk, and a non-EOF error at a chosen position
type verifReader struct {
	failErr   error // nil: errVerifRead
	body      []byte
	pos       int
	failAt    int
	zeroReads int
	name      string
	started   bool
	finished  bool
	onRead    func(k int) // optional: called before the k-th read (k = 0, 1, ...)
	reads     int
}

func (r *verifReader) Read(b []byte) (int, error) {
	if r.onRead != nil {
		r.onRead(r.reads)
	}
	r.reads++
	if r.failAt >= 0 && r.pos >= r.failAt {
		if r.failErr != nil {
			return 0, r.failErr
		}
		return 0, errVerifRead
	}
	rem := len(r.body) - r.pos
	if r.failAt >= 0 {
		rem = r.failAt - r.pos // the transport fails exactly after failAt bytes
	}
	if rem == 0 {
		r.finished = true
		return 0, io.EOF
	}
	m := len(b)
	if rem < m {
		m = rem
	}
	lo := 1
	if r.zeroReads < 1 {
		lo = 0
	}
	n := lo + vf.Choose(r.name+"chunk", m+1-lo)
	if n == 0 {
		r.zeroReads++
		return 0, nil
	}
	copy(b, r.body[r.pos:r.pos+n])
	r.pos += n
	if r.pos == len(r.body) && r.failAt < 0 && vf.Choose(r.name+"eof-with-data", 2) == 1 {
		return n, io.EOF
	}
	return n, nil
}

func verifShaped(name string, n int) []byte {
	b := make([]byte, n)
	for i := range b {
		if vf.Choose(name+"-nl", 2) == 1 {
			b[i] = '\n'
		} else {
			c := vf.Byte(name)
			vf.Assume(c != '\n')
			b[i] = c
		}
	}
	return b
}

// reference: newline-separated pieces; a final unterminated piece is included, nothing after a trailing newline
func verifSplit(body []byte) [][]byte {
	var out [][]byte
	ls := 0
	for i, c := range body {
		if c == '\n' {
			out = append(out, body[ls:i])
			ls = i + 1
		}
	}
	if ls < len(body) {
		out = append(out, body[ls:])
	}
	return out
}

func verifNewPlugin(ctl pipeline.InputPluginController, bufSize int, nbufs int) *Plugin {
	p := &Plugin{controller: ctl, config: &Config{}, params: &pipeline.InputPluginParams{PluginDefaultParams: pipeline.PluginDefaultParams{PipelineSettings: &pipeline.Settings{AvgEventSize: 4}}}}
	for i := 0; i < nbufs; i++ {
		b := make([]byte, bufSize)
		p.readBuffs.Put(&b)
	}
	return p
}

// C11.H1: processBulk delivers exactly the body's lines, however the body is chunked.
func VerifH_C11_bulkLines() {
	N := vf.Param("N", 5)
	n := vf.Choose("n", N+1)
	body := verifShaped("body", n)
	bufSize := 1 + vf.Choose("buf", vf.Param("B", 3))
	failAt := -1
	if vf.Param("faults", 1) == 1 && vf.Choose("fault", 2) == 1 {
		failAt = vf.Choose("failAt", n+1)
	}
	twin := vf.Param("twin", 0) == 1
	ctl := &verifCtl{}
	p := verifNewPlugin(ctl, bufSize, 1)
	r := &verifReader{body: body, failAt: failAt}
	err := p.processBulk(r, nil)
	if failAt >= 0 {
		vf.Assert(err != nil, "transport-error-is-reported")
		// whatever was handed over before the error are complete lines of the consumed prefix, in order
		want := verifSplit(body[:failAt])
		vf.Assert(len(ctl.calls) <= len(want), "error-no-extra-events")
		for i := range ctl.calls {
			if i < len(want) {
				vf.Assert(vf.SameBytes(ctl.calls[i].data, want[i]), "error-prefix-lines")
			}
		}
		vf.Reach("transport-error")
		return
	}
	vf.Assert(err == nil, "no-error-on-clean-body")
	want := verifSplit(body)
	if twin {
		vf.Assert(len(ctl.calls) == len(want)+1, "event-count")
		return
	}
	vf.Assert(len(ctl.calls) == len(want), "event-count")
	if len(ctl.calls) == len(want) {
		for i := range want {
			vf.Assert(vf.SameBytes(ctl.calls[i].data, want[i]), "event-is-line")
			vf.Assert(ctl.calls[i].src == ctl.calls[0].src, "one-source-id-per-request")
		}
	}
	if n > 0 && body[n-1] != '\n' {
		vf.Reach("final-unterminated-line")
	}
	if len(want) >= 2 {
		vf.Reach("two-lines")
	}
	vf.Assert(len(p.sourceIDs) == 1, "source-id-returned")
	vf.Observe("events", len(ctl.calls))
}

// recording ResponseWriter
type verifRW struct {
	h        nethttp.Header
	status   int
	body     []byte
	inAtBody int // number of In calls when the body was first written
	ctl      *verifCtl
}

func (w *verifRW) Header() nethttp.Header { return w.h }
func (w *verifRW) Write(b []byte) (int, error) {
	if w.status == 0 {
		w.status = 200
	}
	if w.inAtBody < 0 {
		w.inAtBody = len(w.ctl.calls)
	}
	w.body = append(w.body, b...)
	return len(b), nil
}
func (w *verifRW) WriteHeader(code int) {
	if w.status == 0 {
		w.status = code
	}
	if w.inAtBody < 0 {
		w.inAtBody = len(w.ctl.calls)
	}
}

// C11.H2: a 200 answer is written only after every line was handed over; errors give 400.
func VerifH_C11_okAfterAll() {
	N := vf.Param("N", 4)
	n := vf.Choose("n", N+1)
	body := verifShaped("body", n)
	bufSize := 1 + vf.Choose("buf", vf.Param("B", 2))
	failAt := -1
	if vf.Choose("fault", 2) == 1 {
		failAt = vf.Choose("failAt", n+1)
	}
	ctl := &verifCtl{}
	p := verifNewPlugin(ctl, bufSize, 1)
	rd := &verifReader{body: body, failAt: failAt}
	if failAt >= 0 && vf.Choose("fault-kind", 2) == 1 {
		rd.failErr = io.ErrUnexpectedEOF // what net/http reports for a body shorter than announced
	}
	w := &verifRW{h: nethttp.Header{}, inAtBody: -1, ctl: ctl}
	req := &nethttp.Request{Method: "POST", Header: nethttp.Header{}, Body: io.NopCloser(rd)}
	switch vf.Choose("entry", 3) {
	case 0:
		p.serveBulk(w, req, nil)
	case 1: // through the router, plain mode
		req.URL = &url.URL{Path: "/"}
		req.RequestURI = "/"
		p.ServeHTTP(w, req)
	case 2: // through the router, elasticsearch emulation, bulk request with a query string
		p.config.EmulateMode_ = EmulateModeElasticSearch
		req.URL = &url.URL{Path: "/_bulk", RawQuery: "filter_path=errors"}
		req.RequestURI = "/_bulk?filter_path=errors"
		p.ServeHTTP(w, req)
		vf.Reach("elasticsearch-bulk-route")
	}
	if vf.Param("twin", 0) == 1 {
		vf.Assert(w.status != 200, "status")
		return
	}
	if failAt >= 0 {
		vf.Assert(w.status == 400, "error-status-400")
		vf.Reach("status-400")
		return
	}
	vf.Assert(w.status == 200, "status")
	vf.Assert(w.inAtBody == len(verifSplit(body)), "ok-only-after-every-line")
	vf.Reach("status-200")
}

// C11.H3: two concurrent requests never mix bytes and use distinct source ids while both are active.
func VerifH_C11_concurrent() {
	// bodies of fixed shape "x\ny" over disjoint alphabets; the schedule is what varies
	mk := func(name string, n int, hi bool) []byte {
		b := make([]byte, n)
		for i := range b {
			if i == 1 {
				b[i] = '\n'
				continue
			}
			c := vf.Byte(name)
			vf.Assume(c != '\n' && (c >= 0x80) == hi)
			b[i] = c
		}
		return b
	}
	a := mk("a", vf.Param("NA", 3), false)
	b := mk("b", vf.Param("NB", 3), true)
	ctl := &verifCtl{}
	p := verifNewPlugin(ctl, 1, 0)
	rb0, rb1 := make([]byte, 1), make([]byte, 1)
	p.readBuffs.Put(&rb0)
	p.readBuffs.Put(&rb1)
	done := make(chan error, 2)
	ra := &verifReader{body: a, failAt: -1, zeroReads: 1, name: "a-"}
	rb := &verifReader{body: b, failAt: -1, zeroReads: 1, name: "b-"}
	overlap := false
	ya := &verifYieldReader{r: ra, other: rb, overlap: &overlap}
	yb := &verifYieldReader{r: rb, other: ra, overlap: &overlap}
	// a source id must not be used by two requests that are both still being served (In may block, e.g.
	// on a full event pool, so the other request can run in the middle of it)
	lastID := map[bool]pipeline.SourceID{}
	seen := map[bool]bool{}
	finished := map[bool]bool{}
	ctl.onIn = func(id pipeline.SourceID, data []byte) {
		isB := false
		for _, x := range data {
			if x >= 0x80 {
				isB = true
			}
		}
		if len(data) == 0 {
			return
		}
		vf.Atomic(func() {
			seen[isB], lastID[isB] = true, id
			if seen[!isB] && !finished[!isB] {
				vf.Assert(lastID[!isB] != id, "source-id-not-shared-by-two-active-requests")
			}
		})
		vf.Yield()
	}
	go func() { err := p.processBulk(ya, nil); vf.Atomic(func() { finished[false] = true }); done <- err }()
	go func() { err := p.processBulk(yb, nil); vf.Atomic(func() { finished[true] = true }); done <- err }()
	e1 := <-done
	e2 := <-done
	vf.Assert(e1 == nil && e2 == nil, "no-errors")
	// every event consists of bytes of one body only, and per source id the events are that body's lines
	var fromA, fromB [][]byte
	var srcA, srcB pipeline.SourceID
	for _, c := range ctl.calls {
		isA, isB := false, false
		for _, x := range c.data {
			if x < 0x80 {
				isA = true
			} else {
				isB = true
			}
		}
		vf.Assert(!(isA && isB), "bodies-not-mixed")
		if isA {
			fromA = append(fromA, c.data)
			srcA = c.src
		} else if isB {
			fromB = append(fromB, c.data)
			srcB = c.src
		}
	}
	if overlap {
		vf.Assert(srcA != srcB, "distinct-source-ids-while-both-active")
		vf.Reach("requests-overlapped")
	}
	if vf.Param("twin", 0) == 1 {
		vf.Assert(len(ctl.calls) == 0, "twin")
		return
	}
	wantA, wantB := verifNonEmpty(verifSplit(a)), verifNonEmpty(verifSplit(b))
	vf.Assert(len(fromA) == len(wantA) && len(fromB) == len(wantB), "per-body-line-count")
	if len(fromA) == len(wantA) {
		for i := range wantA {
			vf.Assert(vf.SameBytes(fromA[i], wantA[i]), "a-lines")
		}
	}
	if len(fromB) == len(wantB) {
		for i := range wantB {
			vf.Assert(vf.SameBytes(fromB[i], wantB[i]), "b-lines")
		}
	}
	vf.Assert(len(p.sourceIDs) >= 1, "source-ids-returned")
}

func verifNonEmpty(in [][]byte) [][]byte {
	var out [][]byte
	for _, x := range in {
		if len(x) > 0 {
			out = append(out, x)
		}
	}
	return out
}

// a reader that offers a scheduling point on every read (the transport can block)
type verifYieldReader struct {
	r, other *verifReader
	overlap  *bool
}

func (y *verifYieldReader) Read(b []byte) (int, error) {
	vf.Yield()
	if !y.r.started {
		y.r.started = true
	}
	if y.other.started && !y.other.finished {
		*y.overlap = true // both requests hold a source id right now
	}
	return y.r.Read(b)
}

// C11.H4: a request aborted by a transport error must not leak bytes into the next request
// (buffers and source ids are recycled through pools).
func VerifH_C11_afterAbort() {
	n1 := 1 + vf.Choose("n1", vf.Param("N1", 3))
	n2 := 1 + vf.Choose("n2", vf.Param("N2", 3))
	b1 := verifShaped("first", n1)
	b2 := verifShaped("second", n2)
	failAt := vf.Choose("failAt", n1+1)
	bufSize := 1 + vf.Choose("buf", vf.Param("B", 2))
	ctl := &verifCtl{}
	p := verifNewPlugin(ctl, bufSize, 1)
	err1 := p.processBulk(&verifReader{body: b1, failAt: failAt, zeroReads: 1, name: "r1-"}, nil)
	vf.Assert(err1 != nil, "first-request-fails")
	k := len(ctl.calls)
	err2 := p.processBulk(&verifReader{body: b2, failAt: -1, zeroReads: 1, name: "r2-"}, nil)
	vf.Assert(err2 == nil, "second-request-succeeds")
	want := verifSplit(b2)
	got := ctl.calls[k:]
	if vf.Param("twin", 0) == 1 {
		vf.Assert(len(got) != len(want), "second-request-lines")
		return
	}
	vf.Assert(len(got) == len(want), "second-request-lines")
	if len(got) == len(want) {
		for i := range want {
			vf.Assert(vf.SameBytes(got[i].data, want[i]), "second-request-own-bytes-only")
		}
	}
	if failAt > 0 && b1[failAt-1] != '\n' {
		vf.Reach("abort-with-pending-partial-line")
	}
}

// C11.H5: a gzip body (two concatenated members, RFC 1952, cut inside a line) delivers exactly the
// lines of the decompressed stream, and the pooled decompressor is handed to one request at a time.
func VerifH_C11_gzipBody() {
	body := append(append([]byte(nil), verifGzipMember1...), verifGzipMember2...)
	want := [][]byte{[]byte(`{"a":"1"}`), []byte(`{"b":"2"}`), []byte(`{"c":"3"}`), []byte(`{"d":"4"}`)}
	ctl := &verifCtl{}
	p := verifNewPlugin(ctl, 16, 2)
	rounds := 1 + vf.Choose("requests", 2)
	for r := 0; r < rounds; r++ {
		ctl.calls = nil
		rd := &verifFixedReader{body: body, step: 7 + 6*vf.Choose("chunk", 3)}
		w := &verifRW{h: nethttp.Header{}, inAtBody: -1, ctl: ctl}
		req := &nethttp.Request{Method: "POST", Header: nethttp.Header{"Content-Encoding": []string{"gzip"}}, Body: io.NopCloser(rd)}
		p.serveBulk(w, req, nil)
		if vf.Param("twin", 0) == 1 {
			vf.Assert(w.status != 200, "status")
			return
		}
		vf.Assert(w.status == 200, "gzip-body-accepted")
		var datas [][]byte
		for _, c := range ctl.calls {
			datas = append(datas, c.data)
		}
		got := verifNonEmpty(datas)
		ok := len(got) == len(want)
		if ok {
			for i := range want {
				if string(got[i]) != string(want[i]) {
					ok = false
				}
			}
		}
		vf.Assert(ok, "gzip-lines-are-the-decompressed-lines")
	}
	if vf.Choose("then-a-body-that-is-not-gzip", 2) == 1 {
		w := &verifRW{h: nethttp.Header{}, inAtBody: -1, ctl: ctl}
		req := &nethttp.Request{Method: "POST", Header: nethttp.Header{"Content-Encoding": []string{"gzip"}}, Body: io.NopCloser(&verifFixedReader{body: []byte("{\"plain\":1}\n"), step: 8})}
		p.serveBulk(w, req, nil)
		vf.Assert(w.status == 400, "not-gzip-refused")
		vf.Reach("bad-gzip-refused")
	}
	// the pool holds each decompressor once
	a, _ := p.gzipReaderPool.Get().(*gzip.Reader)
	b, _ := p.gzipReaderPool.Get().(*gzip.Reader)
	vf.Assert(a == nil || a != b, "decompressor-pooled-once")
	vf.Reach("gzip-served")
}

type verifFixedReader struct {
	body []byte
	pos  int
	step int
}

func (r *verifFixedReader) Read(b []byte) (int, error) {
	if r.pos >= len(r.body) {
		return 0, io.EOF
	}
	n := r.step
	if n > len(b) {
		n = len(b)
	}
	if n > len(r.body)-r.pos {
		n = len(r.body) - r.pos
	}
	copy(b, r.body[r.pos:r.pos+n])
	r.pos += n
	return n, nil
}

var verifGzipMember1 = []byte{0x1f, 0x8b, 0x08, 0x00, 0x00, 0x00, 0x00, 0x00, 0x02, 0x03, 0xab, 0x56, 0x4a, 0x54, 0xb2, 0x52, 0x32, 0x54, 0xaa, 0xe5, 0xaa, 0x56, 0x4a, 0x02, 0xb2, 0x8c, 0xc0, 0xac, 0x64, 0x25, 0x2b, 0x00, 0x38, 0xf6, 0xa8, 0x9c, 0x19, 0x00, 0x00, 0x00}
var verifGzipMember2 = []byte{0x1f, 0x8b, 0x08, 0x00, 0x00, 0x00, 0x00, 0x00, 0x02, 0x03, 0x53, 0x32, 0x56, 0xaa, 0xe5, 0xaa, 0x56, 0x4a, 0x51, 0xb2, 0x52, 0x32, 0x01, 0xb2, 0x00, 0x6b, 0xd2, 0x46, 0x25, 0x0f, 0x00, 0x00, 0x00}

// replaces (*metadata.MetaTemplater).Render: the templates themselves (text/template) are outside the encoding;
// what the plugin does to the request while it collects the template data is not
func verifStubRender(m *metadata.MetaTemplater, data metadata.Data) (metadata.MetaData, error) {
	return metadata.MetaData{"k": "v"}, nil
}

// C11.H2b: a request served with the meta option configured (the plugin collects login, address, query
// parameters of the request for the templates first): every line of the body is still handed over,
// whatever the content type of the request.
func VerifH_C11_metaRequest() {
	ctl := &verifCtl{}
	p := verifNewPlugin(ctl, 2, 1)
	p.config.Meta = map[string]string{"k": "{{ .params }}"}
	p.metaTemplater = &metadata.MetaTemplater{}
	body := []byte("ab\ncd\n")
	rd := &verifReader{body: body, failAt: -1}
	w := &verifRW{h: nethttp.Header{}, inAtBody: -1, ctl: ctl}
	req := &nethttp.Request{Method: "POST", Header: nethttp.Header{}, Body: io.NopCloser(rd), RemoteAddr: "10.0.0.1:4242", ContentLength: int64(len(body))}
	ct := []string{"", "application/json", "application/x-ndjson", "application/x-www-form-urlencoded", "text/plain"}[vf.Choose("content-type", 5)]
	if ct != "" {
		req.Header.Set("Content-Type", ct)
	}
	req.URL = &url.URL{Path: "/", RawQuery: "env=prod"}
	req.RequestURI = "/?env=prod"
	if vf.Choose("elasticsearch-mode", 2) == 1 {
		p.config.EmulateMode_ = EmulateModeElasticSearch
		req.URL.Path = "/_bulk"
		req.RequestURI = "/_bulk?env=prod"
	}
	p.ServeHTTP(w, req)
	if vf.Param("twin", 0) == 1 {
		vf.Assert(len(ctl.calls) != 2, "every-line-handed-over-with-meta-configured")
		return
	}
	vf.Assert(w.status == 200, "status")
	vf.Assert(len(ctl.calls) == 2, "every-line-handed-over-with-meta-configured")
	if len(ctl.calls) == 2 {
		vf.Assert(string(ctl.calls[0].data) == "ab" && string(ctl.calls[1].data) == "cd", "lines-are-the-body-lines")
	}
	vf.Assert(w.inAtBody == 2, "ok-only-after-every-line")
	vf.Reach("served-with-meta")
}

// C11.H2c: the server is shut down (the plugin's stop channel is closed, as at the end of listenHTTP) while a
// request is still being read: the request is either served completely - 200 only after every line of the
// body was handed over - or answered with an error; it is never acknowledged half-read.
func VerifH_C11_shutdownDuringRequest() {
	ctl := &verifCtl{}
	p := verifNewPlugin(ctl, 1+vf.Choose("buf", 2), 1)
	p.stopChan = make(chan struct{})
	body := []byte("ab\ncd\nef")
	closeAt := vf.Choose("shutdown-before-read", 6) // 5: not during this request
	closed := false
	rd := &verifReader{body: body, failAt: -1}
	rd.onRead = func(k int) {
		if k == closeAt && !closed {
			closed = true
			close(p.stopChan)
			vf.Reach("shutdown-while-reading")
		}
	}
	w := &verifRW{h: nethttp.Header{}, inAtBody: -1, ctl: ctl}
	req := &nethttp.Request{Method: "POST", Header: nethttp.Header{}, Body: io.NopCloser(rd)}
	p.serveBulk(w, req, nil)
	if vf.Param("twin", 0) == 1 {
		vf.Assert(w.status != 200, "twin")
		return
	}
	if w.status == 200 {
		ok := len(ctl.calls) == 3 && string(ctl.calls[0].data) == "ab" && string(ctl.calls[1].data) == "cd" && string(ctl.calls[2].data) == "ef"
		vf.Assert(ok, "ok-only-after-every-line-also-during-shutdown")
	}
	vf.Reach("served")
}
