package k8s

import (
	"github.com/ozontech/file.d/pipeline"

	vf "github.com/ozontech/file.d/zzverif"
)

// C01 / C02 / C04 / C15 with the real k8s multi-line action inside the integrated pipeline (real streamer,
// processors, batcher, pool): partial chunks of a container log line are collapsed into the event of the
// chunk that ends the line; every record ends committed exactly once, after its acknowledgement and after
// everything earlier of its stream, or collapsed; nothing stays behind when the pipeline is idle.
func VerifH_C01_pipelineRealK8s() {
	pipeline.VerifRealAction = func() (pipeline.ActionPlugin, pipeline.AnyConfig) {
		return &MultilineAction{}, &Config{SplitEventSize: 1000000 + predictionLookahead}
	}
	texts := map[int64]string{}   // record (= offset) -> its chunk text
	streams := map[int64]string{} // record -> stream
	pipeline.VerifRealTimeouts = 0
	pipeline.VerifRealDoc = func(i int, stream string) string {
		txt := []string{`a`, `bc\n`, `\"q`, `d\\\n`}[vf.Choose("chunk", 4)]
		texts[int64(i)], streams[int64(i)] = txt, stream
		return `{"stream":"` + stream + `","log":"` + txt + `",` + verifMetaFields + `}`
	}
	pipeline.VerifRealOut = func(e *pipeline.Event) {
		if pipeline.VerifRealTimeouts > 0 {
			return // a stream time-out drops the buffered part of a line: the exact content is k8sChunks' subject
		}
		// what reaches the output for record o is the in-order concatenation of the chunks of its line
		o := e.Offset
		want := texts[o]
		for j := o - 1; j >= 1; j-- {
			if streams[j] != streams[o] {
				continue
			}
			t := texts[j]
			if len(t) >= 2 && t[len(t)-2:] == `\n` {
				break // the previous line ended here
			}
			want = t + want
		}
		got := string(e.Root.Dig("log").AppendEscapedString(nil))
		vf.Assert(got == `"`+want+`"`, "line-that-reaches-the-output-is-the-in-order-concatenation-of-its-chunks")
	}
	pipeline.VerifH_C01_pipeline()
}
