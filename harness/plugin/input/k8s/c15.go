package k8s

import (
	"strings"

	"github.com/ozontech/file.d/pipeline"
	"github.com/ozontech/file.d/plugin/input/k8s/meta"
	insaneJSON "github.com/ozontech/insane-json"
	"go.uber.org/zap"

	vf "github.com/ozontech/file.d/zzverif"
)

type verifCtl struct{}

func (c *verifCtl) Propagate(e *pipeline.Event)                            {}
func (c *verifCtl) Spawn(parent *pipeline.Event, nodes []*insaneJSON.Node) {}
func (c *verifCtl) IncMaxEventSizeExceeded(lvs ...string)                  {}

func verifAction(maxEventSize int, cutOff bool) *MultilineAction {
	p := &MultilineAction{}
	params := &pipeline.ActionPluginParams{Controller: &verifCtl{},
		PluginDefaultParams: pipeline.PluginDefaultParams{PipelineSettings: &pipeline.Settings{MaxEventSize: maxEventSize, CutOffEventByLimit: cutOff, CutOffEventByLimitField: "cut"}}}
	if !vf.Symbolic() {
		params.Logger = zap.NewNop().Sugar()
	}
	p.Start(&Config{SplitEventSize: 1000000 + predictionLookahead}, params)
	return p
}

const verifMetaFields = `"k8s_namespace":"ns","k8s_pod":"pod","k8s_container_id":"cid","k8s_container":"c"`

// chunk texts (already JSON-escaped, as the container runtime writes them)
var verifChunks = []string{`a`, `bc`, `\"q`, `d\\`, `\u00e9z`, `e\\n`, `\\`, ``} // `e\\n`: a literal backslash followed by the letter n; `\\`: only a backslash; the empty chunk (with a line end: an empty line)

// C15.H2 / C13: the k8s multi-line action joins the partial chunks of one container log line.
func VerifH_C15_k8sChunks() {
	K := 1 + vf.Choose("events", vf.Param("K", 4))
	maxSize := []int{0, 6, 9, 7, 8}[vf.Choose("max-event-size", vf.Param("MS", 3))]
	cutOff := false
	if maxSize != 0 {
		cutOff = vf.Choose("cut-off", 2) == 1
	}
	twin := vf.Param("twin", 0) == 1
	p := verifAction(maxSize, cutOff)
	run := ""
	type passedEvent struct {
		root *insaneJSON.Root
		want string
	}
	var passed []passedEvent // events handed on earlier must not change while later chunks are buffered
	for i := 0; i < K; i++ {
		for _, pe := range passed {
			vf.Assert(string(pe.root.Dig("log").AppendEscapedString(nil)) == pe.want, "passed-event-unchanged-by-later-chunks")
		}
		txt := verifChunks[vf.Choose("chunk", len(verifChunks))]
		isEnd := vf.Choose("ends-line", 2) == 1
		if isEnd {
			txt += `\n`
		}
		// a stream time-out in the middle of a line drops the partial line
		if run != "" && vf.Choose("timeout-before", 2) == 1 {
			to := &pipeline.Event{}
			to.SetTimeoutKind()
			vf.Assert(p.Do(to) == pipeline.ActionDiscard, "timeout-discarded")
			run = ""
			vf.Reach("timeout-in-the-middle")
		}
		root := insaneJSON.Spawn()
		if err := root.DecodeString(`{"log":"` + txt + `",` + verifMetaFields + `}`); err != nil {
			vf.Fail("bad-template")
			return
		}
		ev := &pipeline.Event{Root: root, Size: len(txt) + 10}
		res := p.Do(ev)
		fresh := run == "" // this chunk starts a new line (first one, after a line end or after a time-out)
		run += txt
		if maxSize != 0 && fresh && isEnd && len(txt)+3 < maxSize {
			// a complete line that fits the limit is handed on as it is, whatever happened before it
			vf.Assert(res == pipeline.ActionPass, "short-complete-line-passes-under-a-limit")
			if res == pipeline.ActionPass {
				vf.Assert(string(root.Dig("log").AppendEscapedString(nil)) == `"`+txt+`"`, "short-complete-line-unchanged-under-a-limit")
			}
			vf.Reach("short-line-under-limit")
		}
		if maxSize != 0 {
			// with a size limit: only structural guarantees (exact cut positions are not modelled)
			if res == pipeline.ActionPass {
				out := root.EncodeToString()
				chk := insaneJSON.Spawn()
				vf.Assert(chk.DecodeString(out) == nil, "limited-output-is-valid-json")
				vf.Assert(verifStrictJSON([]byte(out)), "limited-output-is-strictly-valid-json")
				vf.Reach("limited-pass")
			}
			if isEnd {
				run = ""
			}
			continue
		}
		if !isEnd {
			vf.Assert(res == pipeline.ActionCollapse, "partial-chunk-is-collapsed")
			continue
		}
		vf.Assert(res == pipeline.ActionPass, "line-end-passes")
		got := string(root.Dig("log").AppendEscapedString(nil))
		want := `"` + run + `"`
		if twin {
			vf.Assert(got != want, "joined-log-is-in-order-concatenation")
		} else {
			vf.Assert(got == want, "joined-log-is-in-order-concatenation")
		}
		if len(run) > len(txt) {
			vf.Reach("joined-several-chunks")
		}
		out := root.EncodeToString()
		chk := insaneJSON.Spawn()
		vf.Assert(chk.DecodeString(out) == nil, "output-is-valid-json")
		vf.Assert(verifStrictJSON([]byte(out)), "output-is-strictly-valid-json")
		passed = append(passed, passedEvent{root, want})
		run = ""
	}
	for _, pe := range passed {
		vf.Assert(string(pe.root.Dig("log").AppendEscapedString(nil)) == pe.want, "passed-event-unchanged-by-later-chunks")
	}
}

// C13: any content of the log field (empty string, number, bool, null, object) is survived.
func VerifH_C13_k8sLogField() {
	vals := []string{`""`, `"x"`, `"\n"`, `1`, `12`, `123`, `true`, `null`, `"ab\n"`, `"\\"`, `[1]`, `{"a":1}`}
	k := vf.Choose("log-value", len(vals)+1)
	p := verifAction(0, false)
	root := insaneJSON.Spawn()
	if k == len(vals) {
		_ = root.DecodeString(`{` + verifMetaFields + `}`) // a line without the log field at all
	} else {
		_ = root.DecodeString(`{"log":` + vals[k] + `,` + verifMetaFields + `}`)
	}
	ev := &pipeline.Event{Root: root, Size: 20}
	res := p.Do(ev)
	if vf.Param("twin", 0) == 1 {
		vf.Assert(res == pipeline.ActionDiscard, "twin")
		return
	}
	vf.Assert(res == pipeline.ActionPass || res == pipeline.ActionCollapse, "defined-result")
	out := root.EncodeToString()
	chk := insaneJSON.Spawn()
	vf.Assert(chk.DecodeString(out) == nil, "event-still-valid-json")
	vf.Reach("survived")
}

// replaces meta.GetPodMeta (the gatherer is not running): "no metadata for this pod".
// The engine matches stubs by name; the nil pointer stands for the unexported *podMeta.
func verifStubGetPodMeta(ns meta.Namespace, pod meta.PodName, cid meta.ContainerID) (bool, *int) {
	return false, nil
}

// verifStrictJSON: RFC 8259 validity of one document (plain Go; the data it sees here is concrete).
func verifStrictJSON(b []byte) bool {
	i := 0
	ws := func() {
		for i < len(b) && (b[i] == ' ' || b[i] == '\t' || b[i] == '\n' || b[i] == '\r') {
			i++
		}
	}
	var value func(depth int) bool
	str := func() bool {
		if i >= len(b) || b[i] != '"' {
			return false
		}
		i++
		for i < len(b) {
			c := b[i]
			switch {
			case c == '"':
				i++
				return true
			case c < 0x20:
				return false
			case c == '\\':
				if i+1 >= len(b) {
					return false
				}
				e := b[i+1]
				if e == 'u' {
					if i+5 >= len(b) {
						return false
					}
					for k := 2; k < 6; k++ {
						h := b[i+k]
						if !(h >= '0' && h <= '9' || h >= 'a' && h <= 'f' || h >= 'A' && h <= 'F') {
							return false
						}
					}
					i += 6
				} else if e == '"' || e == '\\' || e == '/' || e == 'b' || e == 'f' || e == 'n' || e == 'r' || e == 't' {
					i += 2
				} else {
					return false
				}
			default:
				i++
			}
		}
		return false
	}
	value = func(depth int) bool {
		ws()
		if i >= len(b) || depth > 8 {
			return false
		}
		switch c := b[i]; {
		case c == '"':
			return str()
		case c == '{':
			i++
			ws()
			if i < len(b) && b[i] == '}' {
				i++
				return true
			}
			for {
				ws()
				if !str() {
					return false
				}
				ws()
				if i >= len(b) || b[i] != ':' {
					return false
				}
				i++
				if !value(depth + 1) {
					return false
				}
				ws()
				if i < len(b) && b[i] == ',' {
					i++
					continue
				}
				if i < len(b) && b[i] == '}' {
					i++
					return true
				}
				return false
			}
		case c == '[':
			i++
			ws()
			if i < len(b) && b[i] == ']' {
				i++
				return true
			}
			for {
				if !value(depth + 1) {
					return false
				}
				ws()
				if i < len(b) && b[i] == ',' {
					i++
					continue
				}
				if i < len(b) && b[i] == ']' {
					i++
					return true
				}
				return false
			}
		case c == '-' || c >= '0' && c <= '9':
			st := i
			if c == '-' {
				i++
			}
			for i < len(b) && (b[i] >= '0' && b[i] <= '9' || b[i] == '.' || b[i] == 'e' || b[i] == 'E' || b[i] == '+' || b[i] == '-') {
				i++
			}
			return i > st && b[i-1] >= '0' && b[i-1] <= '9'
		default:
			for _, lit := range []string{"true", "false", "null"} {
				if i+len(lit) <= len(b) && string(b[i:i+len(lit)]) == lit {
					i += len(lit)
					return true
				}
			}
			return false
		}
	}
	if !value(0) {
		return false
	}
	ws()
	return i == len(b)
}

// C15.H2b: lines longer than split_event_size are handed on in several pieces: the pieces of a line,
// in order, are exactly the line; every piece is a well-formed event.
func VerifH_C15_k8sSplit() {
	K := 1 + vf.Choose("events", vf.Param("K", 4))
	split := []int{3, 5}[vf.Choose("split-event-size", 2)]
	p := &MultilineAction{}
	params := &pipeline.ActionPluginParams{Controller: &verifCtl{},
		PluginDefaultParams: pipeline.PluginDefaultParams{PipelineSettings: &pipeline.Settings{}}}
	if !vf.Symbolic() {
		params.Logger = zap.NewNop().Sugar()
	}
	p.Start(&Config{SplitEventSize: predictionLookahead + split}, params)
	run, pieces := "", ""
	for i := 0; i < K; i++ {
		txt := verifChunks[vf.Choose("chunk", len(verifChunks))]
		isEnd := vf.Choose("ends-line", 2) == 1
		if isEnd {
			txt += `\n`
		}
		root := insaneJSON.Spawn()
		if err := root.DecodeString(`{"log":"` + txt + `",` + verifMetaFields + `}`); err != nil {
			vf.Fail("bad-template")
			return
		}
		ev := &pipeline.Event{Root: root, Size: len(txt)}
		res := p.Do(ev)
		run += txt
		vf.Assert(res == pipeline.ActionPass || res == pipeline.ActionCollapse, "defined-result")
		if res == pipeline.ActionPass {
			got := root.Dig("log").AppendEscapedString(nil)
			if len(got) >= 2 {
				pieces += string(got[1 : len(got)-1])
			}
			out := root.EncodeToString()
			vf.Assert(verifStrictJSON([]byte(out)), "piece-is-strictly-valid-json")
			if !isEnd {
				vf.Reach("line-split")
			}
		}
		if isEnd {
			vf.Assert(res == pipeline.ActionPass, "line-end-passes")
			if vf.Param("twin", 0) == 1 {
				vf.Assert(pieces != run, "pieces-in-order-are-the-line")
			} else {
				vf.Assert(pieces == run, "pieces-in-order-are-the-line")
			}
			run, pieces = "", ""
		}
	}
}

// C15.H2c: a very long container log line (its chunks add up to more than the action's 128 KiB buffer
// prediction) followed by ordinary lines: the lines after it are still joined correctly.
func VerifH_C15_k8sHugeLine() {
	p := verifAction(0, false)
	feed := func(txt string) (pipeline.ActionResult, *insaneJSON.Root) {
		root := insaneJSON.Spawn()
		if err := root.DecodeString(`{"log":"` + txt + `",` + verifMetaFields + `}`); err != nil {
			vf.Fail("bad-template")
		}
		return p.Do(&pipeline.Event{Root: root, Size: len(txt) + 10}), root
	}
	half := strings.Repeat("x", vf.Param("HALF", 70000))
	res, _ := feed(half)
	vf.Assert(res == pipeline.ActionCollapse, "partial-chunk-is-collapsed")
	res, root := feed(half + `\n`)
	vf.Assert(res == pipeline.ActionPass, "line-end-passes")
	got := root.Dig("log").AsString()
	vf.Assert(len(got) == 2*len(half)+1, "huge-line-is-complete")
	// ordinary lines afterwards
	for i := 0; i < vf.Param("LINES", 1); i++ {
		a := verifChunks[vf.Choose("chunk", len(verifChunks))]
		b := verifChunks[vf.Choose("chunk", len(verifChunks))] + `\n`
		res, _ = feed(a)
		vf.Assert(res == pipeline.ActionCollapse, "partial-chunk-is-collapsed")
		res, root = feed(b)
		vf.Assert(res == pipeline.ActionPass, "line-end-passes")
		want := `"` + a + b + `"`
		if vf.Param("twin", 0) == 1 {
			vf.Assert(string(root.Dig("log").AppendEscapedString(nil)) != want, "line-after-a-huge-line-is-in-order-concatenation")
			return
		}
		vf.Assert(string(root.Dig("log").AppendEscapedString(nil)) == want, "line-after-a-huge-line-is-in-order-concatenation")
		vf.Assert(verifStrictJSON([]byte(root.EncodeToString())), "output-is-strictly-valid-json")
	}
	vf.Reach("lines-after-huge-line")
}
