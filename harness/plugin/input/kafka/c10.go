package kafka

import (
	"context"

	"github.com/ozontech/file.d/decoder"
	"github.com/ozontech/file.d/pipeline"
	"github.com/ozontech/file.d/pipeline/metadata"
	"github.com/twmb/franz-go/pkg/kgo"
	"go.uber.org/zap"

	vf "github.com/ozontech/file.d/zzverif"
)

var (
	verifMarked    map[string]map[int32]kgo.EpochOffset
	verifMarkCalls int
)

// replaces (*kgo.Client).MarkCommitOffsets: records what would be marked
func verifStubMark(c *kgo.Client, m map[string]map[int32]kgo.EpochOffset) {
	verifMarked = m
	verifMarkCalls++
}

// C10.H1: source-id / offset packing and Commit, over the full stated ranges.
func VerifH_C10_packing() {
	nt := 1 + vf.Choose("ntopics", 3)
	topics := []string{"t0", "t1", "t2"}[:nt]
	idx := vf.Int("idx", 0, nt-1)
	part := int32(vf.Int("partition", 0, 65535))
	off := vf.Int64("offset", 0, 1<<47-1)
	epoch := int32(vf.Int("epoch", 0, 65535))
	twin := vf.Param("twin", 0) == 1

	rec := &kgo.Record{Partition: part, Offset: off, LeaderEpoch: epoch}
	sid := assembleSourceID(idx, part)
	eo := assembleOffset(rec)

	// the two halves invert each other
	i2, p2 := disassembleSourceID(sid)
	vf.Assert(i2 == idx && p2 == part, "source-id-roundtrip")
	d := disassembleOffset(eo)
	vf.Assert(d.Epoch == epoch, "epoch-roundtrip")
	if twin {
		vf.Assert(d.Offset == off, "offset-plus-one")
		return
	}
	vf.Assert(d.Offset == off+1, "offset-plus-one")

	p := &Plugin{config: &Config{Topics: topics}}
	ev := &pipeline.Event{SourceID: sid, Offset: eo}
	verifMarked, verifMarkCalls = nil, 0
	p.Commit(ev)
	vf.Assert(verifMarkCalls == 1, "one-mark-call")
	vf.Assert(len(verifMarked) == 1, "one-topic")
	var wantTopic string
	switch idx { // concrete per path after the engine's case split on Topics[index]
	case 0:
		wantTopic = "t0"
	case 1:
		wantTopic = "t1"
	default:
		wantTopic = "t2"
	}
	m, ok := verifMarked[wantTopic]
	vf.Assert(ok, "marked-own-topic")
	vf.Assert(len(m) == 1, "one-partition")
	e, ok := m[part]
	vf.Assert(ok, "marked-own-partition")
	vf.Assert(e.Offset == off+1, "marked-offset-is-next")
	vf.Assert(e.Offset <= off+1, "marked-at-most-one-past")
	vf.Assert(e.Epoch == epoch, "marked-epoch")
	vf.Reach("commit-marked")
}

// stubs for Start: no broker, no consuming goroutine
func verifStubNewClient(c *Config, l *zap.Logger, s Consumer) *kgo.Client   { return nil }
func verifStubConsume(s *splitConsume, ctx context.Context, cl *kgo.Client) {}

type verifCtl struct{}

// what Start asked the pipeline for
var verifSpread, verifNoStreams bool

func (verifCtl) In(pipeline.SourceID, string, pipeline.Offsets, []byte, bool, metadata.MetaData) uint64 {
	return 0
}
func (verifCtl) UseSpread()                        { verifSpread = true }
func (verifCtl) DisableStreams()                   { verifNoStreams = true }
func (verifCtl) SuggestDecoder(decoder.Type)       {}
func (verifCtl) IncReadOps()                       {}
func (verifCtl) IncMaxEventSizeExceeded(...string) {}

// C10.H1b: the topic a record is tagged with at consumption (Start's topic table, used by the
// consumer) is the topic Commit marks, for every topics list including repeated entries.
func VerifH_C10_topicTable() {
	names := []string{"orders", "payments"}
	n := 1 + vf.Choose("ntopics", 3)
	topics := make([]string, n)
	for i := range topics {
		topics[i] = names[vf.Choose("topic", 2)]
	}
	p := &Plugin{}
	verifSpread, verifNoStreams = false, false
	p.Start(&Config{Topics: topics}, &pipeline.InputPluginParams{Controller: verifCtl{}})
	// kafka records carry no per-source stream: without DisableStreams a "stream" field inside the
	// records would sort one partition's records into several streams that commit independently
	vf.Assert(verifNoStreams, "start-disables-streams")
	// a record of one of the consumed topics
	topic := topics[vf.Choose("record-topic", n)]
	part := int32(vf.Int("partition", 0, 65535))
	off := vf.Int64("offset", 0, 1<<47-1)
	topicID := p.s.idByTopic[topic] // what the partition consumer is created with
	ev := &pipeline.Event{SourceID: assembleSourceID(topicID, part), Offset: assembleOffset(&kgo.Record{Partition: part, Offset: off})}
	verifMarked, verifMarkCalls = nil, 0
	p.Commit(ev)
	if vf.Param("twin", 0) == 1 {
		_, ok := verifMarked[topic]
		vf.Assert(!ok, "marked-the-records-own-topic")
		return
	}
	m, ok := verifMarked[topic]
	vf.Assert(ok && len(verifMarked) == 1, "marked-the-records-own-topic")
	if ok {
		e, ok2 := m[part]
		vf.Assert(ok2 && e.Offset == off+1, "marked-offset-is-next")
	}
	vf.Reach("topic-table-checked")
}

// ---- shutdown: only what was marked (= finished) is committed ----

var verifStopCalls []string

func verifStubCommitMarked(c *kgo.Client, ctx context.Context) error {
	verifStopCalls = append(verifStopCalls, "marked")
	return nil
}
func verifStubCommitUncommitted(c *kgo.Client, ctx context.Context) error {
	verifStopCalls = append(verifStopCalls, "uncommitted")
	return nil
}
func verifStubCommitRecords(c *kgo.Client, ctx context.Context, rs ...*kgo.Record) error {
	verifStopCalls = append(verifStopCalls, "records")
	return nil
}
func verifStubClose(c *kgo.Client) { verifStopCalls = append(verifStopCalls, "close") }

// C10.H4: Stop sends the final commit for the marked offsets only (records that were polled but are
// still unfinished must not be committed), before the client is closed.
func VerifH_C10_stopCommitsMarkedOnly() {
	verifStopCalls = nil
	p := &Plugin{config: &Config{Topics: []string{"t"}}, cancel: func() {}}
	if !vf.Symbolic() {
		p.logger = zap.NewNop().Sugar()
	}
	p.Stop()
	ok := len(verifStopCalls) == 2 && verifStopCalls[0] == "marked" && verifStopCalls[1] == "close"
	if vf.Param("twin", 0) == 1 {
		vf.Assert(!ok, "stop-commits-marked-offsets-only")
		return
	}
	vf.Assert(ok, "stop-commits-marked-offsets-only")
	vf.Reach("stopped")
}

// ---- the partition consumer: every fetched record is handed over, tagged with its own coordinates ----

type verifInCall struct {
	src pipeline.SourceID
	off int64
	val string
}

type verifRecCtl struct {
	verifCtl
	calls *[]verifInCall
}

func (c verifRecCtl) In(id pipeline.SourceID, _ string, off pipeline.Offsets, data []byte, _ bool, _ metadata.MetaData) uint64 {
	*c.calls = append(*c.calls, verifInCall{id, pipeline.VerifOffsetsCurrent(off), string(data)})
	return uint64(len(*c.calls))
}

// C10.H5: pconsumer.consume hands every record of every fetch to the pipeline, in order, each tagged with
// its own partition / offset / leader epoch (a fetch may span a leader change and may start at offset 0);
// committing any of them marks exactly its own offset + 1 with its own epoch.
func VerifH_C10_consumeLoop() {
	var calls []verifInCall
	pc := &pconsumer{topic: "t", partition: 3, topicID: 1, quit: make(chan struct{}), done: make(chan struct{}),
		fetches: make(chan kgo.FetchTopicPartition, 2), controller: verifRecCtl{calls: &calls}}
	first := int64(vf.Choose("first-offset", 2)) * 10 // 0 or 10
	n := 1 + vf.Choose("records", vf.Param("K", 3))
	var recs []*kgo.Record
	epoch := int32(7)
	for i := 0; i < n; i++ {
		if i > 0 && vf.Choose("leader-changed", 2) == 1 {
			epoch++
		}
		recs = append(recs, &kgo.Record{Topic: "t", Partition: 3, Offset: first + int64(i), LeaderEpoch: epoch, Value: []byte{byte('a' + i)}})
	}
	// delivered in one or two fetches
	cut := n
	if n > 1 && vf.Choose("two-fetches", 2) == 1 {
		cut = 1 + vf.Choose("cut", n-1)
	}
	go pc.consume()
	pc.fetches <- kgo.FetchTopicPartition{Topic: "t", FetchPartition: kgo.FetchPartition{Partition: 3, Records: recs[:cut]}}
	if cut < n {
		pc.fetches <- kgo.FetchTopicPartition{Topic: "t", FetchPartition: kgo.FetchPartition{Partition: 3, Records: recs[cut:]}}
	}
	vf.Quiesce(0)
	close(pc.quit)
	if vf.Param("twin", 0) == 1 {
		vf.Assert(len(calls) != n, "every-fetched-record-handed-over-once-in-order")
		return
	}
	vf.Assert(len(calls) == n, "every-fetched-record-handed-over-once-in-order")
	if len(calls) != n {
		return
	}
	p := &Plugin{config: &Config{Topics: []string{"x", "t"}}}
	for i, c := range calls {
		vf.Assert(c.val == string(recs[i].Value), "every-fetched-record-handed-over-once-in-order")
		verifMarked, verifMarkCalls = nil, 0
		p.Commit(&pipeline.Event{SourceID: c.src, Offset: c.off})
		e, ok := verifMarked["t"][3]
		vf.Assert(ok && len(verifMarked) == 1 && e.Offset == recs[i].Offset+1 && e.Epoch == recs[i].LeaderEpoch, "commit-marks-the-records-own-offset-and-epoch")
	}
	vf.Reach("fetches-consumed")
}
