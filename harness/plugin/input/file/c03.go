package file

import (
	"io"
	"os"
	"sync"
	"syscall"
	"time"

	"github.com/ozontech/file.d/pipeline"

	vf "github.com/ozontech/file.d/zzverif"
)

var verifSeekPos int64 = -1

// replaces (*os.File).Seek: records where reading resumes
func verifStubSeek(f *os.File, offset int64, whence int) (int64, error) {
	verifSeekPos = offset
	if whence == 0 {
		verifPos = int(offset) // the "file" of c06.go
	}
	return offset, nil
}

// replaces (*os.File).Read for a position that may lie beyond the end of the (shrunk) file
func verifStubReadAt(f *os.File, b []byte) (int, error) {
	if verifPos >= verifAvail {
		return 0, io.EOF
	}
	return verifStubRead(f, b)
}

type verifLine struct {
	end    int64 // byte offset just after the line's newline
	stream string
	acked  bool // acknowledged by the output (and therefore possibly committed) in the first run
}

// C03.H1: kill at any instant, restart with the offsets persisted last: every line that was not
// acknowledged in the first run is read again and passes the "already committed" filter.
func VerifH_C03_resume() {
	L := 1 + vf.Choose("lines", vf.Param("L", 3))
	streams := []string{"stdout", "stderr"}
	lines := make([]*verifLine, L)
	pos := int64(0)
	for i := range lines {
		pos += int64(1 + vf.Choose("line-length", 2))
		lines[i] = &verifLine{end: pos, stream: streams[vf.Choose("stream", vf.Param("S", 2))]}
	}
	// first run: per stream the acknowledged lines form a prefix of that stream (C01/C02)
	blocked := map[string]bool{}
	for _, l := range lines {
		if !blocked[l.stream] && vf.Choose("acknowledged", 2) == 1 {
			l.acked = true
		} else {
			blocked[l.stream] = true
		}
	}
	// the real commit path builds the job's offsets; the persisted snapshot lags behind by any amount
	jp := verifNewProvider()
	jp.offsetDB = newOffsetDB("offsets.yaml", "offsets.tmp")
	job := verifJob(7, "f", 7)
	jp.jobs[7] = job
	var commits []*verifLine
	for _, l := range lines {
		if l.acked {
			commits = append(commits, l)
		}
	}
	persistedAfter := vf.Choose("commits-persisted", len(commits)+1)
	verifTrace, verifFaults = nil, false
	seq := uint64(0)
	for i, l := range commits {
		if i == persistedAfter {
			break
		}
		seq++
		jp.commit(pipeline.VerifNewEvent(7, l.end, seq, l.stream))
	}
	jp.offsetDB.save(jp.jobs, jp.jobsMu)
	var payload []byte
	for _, t := range verifTrace {
		if t.op == "write" && t.ok {
			payload = t.data
		}
	}
	loaded, err := jp.offsetDB.parse(string(payload))
	vf.Assert(err == nil, "persisted-offsets-load")
	if err != nil {
		return
	}

	// second run
	jp2 := verifNewProvider()
	jp2.loadedOffsets = loaded
	job2 := &Job{file: new(os.File), sourceID: 7, filename: "f", inode: 7, mu: &sync.Mutex{}}
	jp2.jobs[7] = job2
	verifSeekPos = -1
	verifStart, verifAvail = 0, int(pos) // the file still holds every line
	jp2.initEofInfo(job2)                // as addJob does before positioning the job
	jp2.initJobOffset(offsetsOpContinue, job2)
	vf.Assert(verifSeekPos >= 0, "resume-seeks")
	plugin := &Plugin{jobProvider: jp2}
	savedAny := len(loaded[7].streamsOrEmpty()) > 0
	for _, l := range lines {
		if l.acked {
			continue // delivered in the first run; a duplicate is allowed
		}
		reread := l.end > verifSeekPos
		passed := reread && plugin.PassEvent(pipeline.VerifNewEvent(7, l.end, 1, l.stream))
		_, streamSaved := loaded[7].streamsOrEmpty()[pipeline.StreamName(l.stream)]
		label := "unacknowledged-line-is-delivered-after-restart"
		if savedAny && !streamSaved {
			// the line's stream has never been committed while another stream of the file has
			label = "unacknowledged-line-of-a-stream-without-saved-offset-is-delivered-after-restart"
		}
		if vf.Param("twin", 0) == 1 {
			vf.Assert(!passed, label)
			continue
		}
		vf.Assert(passed, label)
		vf.Reach("unacknowledged-line-checked")
	}
}

func (o *inodeOffsets) streamsOrEmpty() map[pipeline.StreamName]int64 {
	if o == nil {
		return nil
	}
	return o.streams
}

// C03.H2: after a truncation the file is started over: events read before it no longer move the
// offsets, and everything written afterwards commits and is not mistaken for "already committed".
func VerifH_C03_truncate() {
	n := 1 + vf.Choose("events-before", vf.Param("N", 3))
	jp := verifNewProvider()
	jp.offsetDB = newOffsetDB("offsets.yaml", "offsets.tmp")
	job := &Job{file: new(os.File), sourceID: 7, filename: "f", inode: 7, mu: &sync.Mutex{}}
	jp.jobs[7] = job
	plugin := &Plugin{jobProvider: jp}
	// before the truncation: n lines read (sequence ids 1..n, offsets 10,20,..); some prefix already committed
	committed := vf.Choose("committed-before", n+1)
	for i := 1; i <= committed; i++ {
		jp.commit(pipeline.VerifNewEvent(7, int64(10*i), uint64(i), "s"))
	}
	job.lastEventSeq = uint64(n) // what the worker recorded for the last line it handed over
	jp.truncateJob(job)
	vf.Assert(verifSeekPos == 0, "truncation-seeks-to-start")
	// the rest of the old events is acknowledged only now
	for i := committed + 1; i <= n; i++ {
		jp.commit(pipeline.VerifNewEvent(7, int64(10*i), uint64(i), "s"))
	}
	off, _ := job.offsets.Get("s")
	if vf.Param("twin", 0) == 1 {
		vf.Assert(off != 0, "old-events-do-not-move-offsets-after-truncation")
		return
	}
	vf.Assert(off == 0, "old-events-do-not-move-offsets-after-truncation")
	// new content: lines ending at 3 and 6, sequence ids continue
	for k, end := range []int64{3, 6} {
		ev := pipeline.VerifNewEvent(7, end, uint64(n+1+k), "s")
		vf.Assert(plugin.PassEvent(ev), "line-written-after-truncation-is-delivered")
		jp.commit(ev) // must not hit the offset corruption panic
	}
	off, _ = job.offsets.Get("s")
	vf.Assert(off == 6, "new-lines-commit-from-the-start")
	vf.Reach("truncated-and-restarted")
}

// C03.H3: truncation while running on a file with two streams, then a kill: a line written after
// the truncation on one stream and not yet acknowledged is read again after the restart even if a
// later line of the other stream was acknowledged and persisted.
func VerifH_C03_truncateTwoStreamsThenKill() {
	jp := verifNewProvider()
	jp.offsetDB = newOffsetDB("offsets.yaml", "offsets.tmp")
	job := &Job{file: new(os.File), sourceID: 7, filename: "f", inode: 7, mu: &sync.Mutex{}}
	jp.jobs[7] = job
	// before the truncation both streams have commits
	jp.commit(pipeline.VerifNewEvent(7, 10, 1, "stdout"))
	jp.commit(pipeline.VerifNewEvent(7, 20, 2, "stderr"))
	job.lastEventSeq = 2
	jp.truncateJob(job)
	// after it: a stdout line ending at 3 (not acknowledged yet), a stderr line ending at 6 (acknowledged)
	jp.commit(pipeline.VerifNewEvent(7, 6, 4, "stderr"))
	// kill; what a save at this moment persists is the job's offsets
	loaded := fpOffsets{7: &inodeOffsets{streams: map[pipeline.StreamName]int64{}, sourceID: 7, filename: "f"}}
	for _, so := range job.offsets {
		loaded[7].streams[so.Stream] = so.Offset
	}
	jp2 := verifNewProvider()
	jp2.loadedOffsets = loaded
	job2 := &Job{file: new(os.File), sourceID: 7, filename: "f", inode: 7, mu: &sync.Mutex{}}
	jp2.jobs[7] = job2
	verifSeekPos = -1
	verifStart, verifAvail = 0, 6
	jp2.initEofInfo(job2)
	jp2.initJobOffset(offsetsOpContinue, job2)
	plugin := &Plugin{jobProvider: jp2}
	passed := verifSeekPos >= 0 && 3 > verifSeekPos && plugin.PassEvent(pipeline.VerifNewEvent(7, 3, 1, "stdout"))
	if vf.Param("twin", 0) == 1 {
		vf.Assert(!passed, "unacknowledged-line-written-after-truncation-is-delivered-after-restart")
		return
	}
	vf.Assert(passed, "unacknowledged-line-written-after-truncation-is-delivered-after-restart")
	vf.Reach("restarted-after-truncation")
}

// C03.H4: the file was truncated and rewritten (shorter than the saved offset) while file.d was
// down: after the restart the truncation is noticed at the first end-of-file and the new content is
// read from the start and not mistaken for already committed data.
func VerifH_C03_truncatedWhileDown() {
	saved := int64(5 + vf.Choose("saved-offset", 3))
	n := 1 + vf.Choose("new-size", 4) // < saved
	content := verifShaped("content", n)
	bufSize := 1 + vf.Choose("buf", vf.Param("B", 3))
	jp := verifNewProvider()
	jp.loadedOffsets = sliceOfLoaded(7, "s", saved)
	job := &Job{file: new(os.File), sourceID: 7, filename: "f", inode: 7, mu: &sync.Mutex{}}
	jp.jobs[7] = job
	verifContent, verifPos, verifAvail, verifStart, verifReads = content, 0, n, 0, 0
	verifSeekPos = -1
	jp.initEofInfo(job)
	jp.initJobOffset(offsetsOpContinue, job)
	rec := &verifRec{}
	w := &worker{}
	for round := 0; round < 2; round++ {
		if round == 1 {
			if !job.isDone {
				break
			}
			job.mu.Lock()
			jp.tryResumeJobAndUnlock(job, "f") // the maintenance loop sees data past the job's position
		} else {
			jp.jobsChan <- job
		}
		jp.jobsChan <- nil
		w.work(rec, jp, bufSize, nil)
	}
	plugin := &Plugin{jobProvider: jp}
	want, _, _ := verifRefLines(content, 0, 0, false, false)
	var got []verifCall
	for _, c := range rec.calls {
		if len(c.data) > 1 {
			got = append(got, c)
		}
	}
	if vf.Param("twin", 0) == 1 {
		vf.Assert(len(got) != len(want), "content-written-after-the-truncation-is-read")
		return
	}
	vf.Assert(len(got) == len(want), "content-written-after-the-truncation-is-read")
	if len(got) != len(want) {
		return
	}
	for i := range want {
		vf.Assert(got[i].off == want[i].off && vf.SameBytes(got[i].data, want[i].data), "new-line-with-its-offset")
		vf.Assert(plugin.PassEvent(pipeline.VerifNewEvent(7, got[i].off, uint64(100+i), "s")), "new-line-not-mistaken-for-committed")
		vf.Reach("new-content-delivered")
	}
}

func sliceOfLoaded(id pipeline.SourceID, stream string, off int64) fpOffsets {
	return fpOffsets{id: &inodeOffsets{streams: map[pipeline.StreamName]int64{pipeline.StreamName(stream): off}, sourceID: id, filename: "f"}}
}

type verifFIino struct {
	size int64
	ino  uint64
}

func (f verifFIino) Name() string       { return "f" }
func (f verifFIino) Size() int64        { return f.size }
func (f verifFIino) Mode() os.FileMode  { return 0 }
func (f verifFIino) ModTime() time.Time { return time.Time{} }
func (f verifFIino) IsDir() bool        { return false }
func (f verifFIino) Sys() any           { return &syscall.Stat_t{Ino: f.ino} }

func verifStubMimeType(string) string { return "" }

// C03.H5: the real addJob. A file found in the start phase is resumed from the offsets loaded at start-up;
// a file that appears while file.d is running (a new file, possibly re-using the inode number of a deleted
// one) is read from the beginning and none of its lines counts as already committed.
func VerifH_C03_addJob() {
	jp := verifNewProvider()
	jp.config.MaxFiles = 10
	jp.config.OffsetsOp_ = offsetsOpContinue
	stat := verifFIino{size: 9, ino: 77}
	sid := sourceIDByStat(stat, "")
	saved := int64(1 + vf.Choose("saved-offset", 8))
	if vf.Choose("known-file", 2) == 1 {
		jp.loadedOffsets = fpOffsets{sid: {filename: "f", sourceID: sid, streams: map[pipeline.StreamName]int64{"s": saved}}}
	}
	started := vf.Choose("appears-after-start", 2) == 1
	jp.isStarted.Store(started)
	verifSeekPos = -1
	verifStart, verifAvail = 0, 9
	jp.addJob(new(os.File), stat, "f", "")
	job := jp.jobs[sid]
	if job == nil {
		vf.Fail("job-added")
		return
	}
	plugin := &Plugin{jobProvider: jp}
	resumed := !started && jp.loadedOffsets != nil
	if vf.Param("twin", 0) == 1 {
		vf.Assert(verifSeekPos != 0, "twin")
		return
	}
	if resumed {
		vf.Assert(verifSeekPos == saved, "known-file-resumes-at-its-saved-offset")
		vf.Reach("resumed")
	} else {
		vf.Assert(verifSeekPos == 0, "new-file-is-read-from-the-beginning")
	}
	for off := int64(1); off <= 9; off++ {
		pass := plugin.PassEvent(pipeline.VerifNewEvent(sid, off, 1, "s"))
		if resumed {
			vf.Assert(pass == (off > saved), "known-file-passes-exactly-the-lines-after-its-saved-offset")
		} else {
			vf.Assert(pass, "every-line-of-a-new-file-is-delivered")
		}
	}
	if started && jp.loadedOffsets != nil {
		vf.Reach("inode-reused-after-start")
	}
}

// C03.H6: files rotated by rename while file.d was down. The offsets file knows inode 1 as "app.log"; at the
// restart that inode is found as "app.log.1" and a new "app.log" has another inode. Found in either order
// in the start phase (the real refreshFile -> addJob): the renamed file resumes at its saved offset, the new
// one is read from the beginning; a later notification for a known inode under yet another name creates no
// second job and keeps the offsets.
func VerifH_C03_renameRotation() {
	jp := verifNewProvider()
	jp.config.MaxFiles = 10
	jp.config.OffsetsOp_ = offsetsOpContinue
	verifFDs = map[*os.File]*verifFD{}
	verifFDSize = 9
	oldStat := verifFIino{size: 9, ino: 1}
	newStat := verifFIino{size: 9, ino: 2}
	oldID, newID := sourceIDByStat(oldStat, ""), sourceIDByStat(newStat, "")
	saved := int64(1 + vf.Choose("saved-offset", 8))
	jp.loadedOffsets = fpOffsets{oldID: {filename: "app.log", sourceID: oldID, streams: map[pipeline.StreamName]int64{"s": saved}}}
	if vf.Choose("new-file-found-first", 2) == 1 {
		jp.refreshFile(newStat, "app.log", "", false)
		jp.refreshFile(oldStat, "app.log.1", "", false)
	} else {
		jp.refreshFile(oldStat, "app.log.1", "", false)
		jp.refreshFile(newStat, "app.log", "", false)
	}
	jp.isStarted.Store(true)
	oldJob, newJob := jp.jobs[oldID], jp.jobs[newID]
	if oldJob == nil || newJob == nil || len(jp.jobs) != 2 {
		vf.Fail("one-job-per-inode")
		return
	}
	if vf.Param("twin", 0) == 1 {
		vf.Assert(verifFDs[oldJob.file].pos != saved, "twin")
		return
	}
	vf.Assert(verifFDs[oldJob.file].pos == saved, "renamed-file-resumes-at-the-offset-saved-for-its-inode")
	vf.Assert(verifFDs[newJob.file].pos == 0, "new-file-under-the-old-name-is-read-from-the-beginning")
	plugin := &Plugin{jobProvider: jp}
	for off := int64(1); off <= 9; off++ {
		vf.Assert(plugin.PassEvent(pipeline.VerifNewEvent(oldID, off, 1, "s")) == (off > saved), "renamed-file-passes-exactly-the-lines-after-its-saved-offset")
		vf.Assert(plugin.PassEvent(pipeline.VerifNewEvent(newID, off, 1, "s")), "every-line-of-the-new-file-is-delivered")
	}
	// rotated once more while running: the same inode under another name
	jp.refreshFile(oldStat, "app.log.2", "", false)
	vf.Assert(len(jp.jobs) == 2 && jp.jobs[oldID] == oldJob, "rename-while-running-keeps-the-job")
	got, ok := oldJob.offsets.Get("s")
	vf.Assert(ok && got == saved, "rename-while-running-keeps-the-offsets")
	vf.Reach("rotation-checked")
}

// C06.H5: offsets_op=tail positions a file found at the start one byte before its end and tells the worker
// to skip to the next line start (the position may lie inside a line); only an empty file is read from 0
// with nothing skipped. Sizes 0, 1, 2 and larger.
func VerifH_C06_tailStart() {
	size := []int64{0, 1, 2, 5, 1 << 20}[vf.Choose("file-size", 5)]
	verifFDSize = size
	f := new(os.File)
	verifFDs = map[*os.File]*verifFD{f: {}}
	jp := verifNewProvider()
	job := &Job{file: f, sourceID: 1, filename: "f", inode: 7, mu: &sync.Mutex{}}
	jp.initJobOffset(offsetsOpTail, job)
	pos, skip := verifFDs[f].pos, job.shouldSkip.Load()
	if vf.Param("twin", 0) == 1 {
		vf.Assert(skip == (size == 0), "twin")
		return
	}
	if size == 0 {
		vf.Assert(pos == 0 && !skip, "empty-file-is-read-from-the-start-nothing-skipped")
	} else {
		vf.Assert(pos == size-1, "tail-starts-one-byte-before-the-end")
		vf.Assert(skip, "tail-skips-to-the-next-line-start")
		vf.Assert(job.curOffset == size-1, "job-offset-follows-the-position")
	}
	vf.Reach("tail-checked")
}
