package file

import (
	"github.com/ozontech/file.d/pipeline"

	vf "github.com/ozontech/file.d/zzverif"
)

// C02 / C03 with the real consumer of the commit notifications: the integrated pipeline (real streamer,
// processors, batcher, pool, model actions) hands every commit to the real jobProvider.commit of the file
// input, which panics ("offset corruption") when an offset does not grow. Under every explored schedule no
// such panic occurs, and when the pipeline is idle the job holds, per stream, the offset of the last record
// of that stream that was not dropped.
func VerifH_C02_pipelineFileCommit() {
	jp := verifNewProvider()
	job := verifJob(1, "src", 10)
	jp.jobs[1] = job
	pipeline.VerifRealCommit = func(e *pipeline.Event) { jp.commit(e) }
	last := map[string]int64{}
	pipeline.VerifRealIdle = func() {
		for _, name := range []string{"a", "b"} {
			got, ok := job.offsets.Get(pipeline.StreamName(name))
			want, any := last[name]
			if vf.Param("twin", 0) == 1 {
				continue
			}
			vf.Assert(ok == any && (!ok || got == want), "job-holds-the-last-committed-offset-of-every-stream")
		}
		vf.Reach("offsets-checked")
	}
	pipeline.VerifRealCommitted = func(off int64, stream string) {
		if off > last[stream] {
			last[stream] = off
		}
	}
	pipeline.VerifH_C01_pipeline()
}
