package file

import (
	"errors"
	"io"
	"os"
	"sync"
	"syscall"
	"time"

	"github.com/ozontech/file.d/pipeline"
	"github.com/ozontech/file.d/pipeline/metadata"
	"github.com/pierrec/lz4/v4"
	"go.uber.org/atomic"

	vf "github.com/ozontech/file.d/zzverif"
)

type verifCall struct {
	off  int64
	data []byte
}

// recording controller (implements inputer)
type verifRec struct {
	calls    []verifCall
	readOps  int
	exceeded int
	admit    bool
	max      int
	cut      bool
	refused  int
}

func (r *verifRec) In(id pipeline.SourceID, name string, off pipeline.Offsets, data []byte, isNew bool, _ metadata.MetaData) uint64 {
	if r.admit {
		// what Pipeline.In does first: the real size check / cut-off, on the worker's own buffer
		out, _, ok := pipeline.VerifCheckInputBytes(r.max, r.cut, data)
		if !ok {
			r.refused++
			return 0
		}
		data = out
	}
	r.calls = append(r.calls, verifCall{pipeline.VerifOffsetsCurrent(off), append([]byte(nil), data...)})
	return uint64(len(r.calls))
}
func (r *verifRec) IncReadOps()                           { r.readOps++ }
func (r *verifRec) IncMaxEventSizeExceeded(lvs ...string) { r.exceeded++ }

// the "file": content appended so far and the read position
var (
	verifContent []byte
	verifPos     int
	verifAvail   int
	verifStart   int64
	verifReads   int
)

// replaces (*os.File).Read: arbitrary chunking of what has been appended so far
func verifStubRead(f *os.File, b []byte) (int, error) {
	rem := verifAvail - verifPos
	if rem == 0 {
		return 0, io.EOF
	}
	m := len(b)
	if rem < m {
		m = rem
	}
	n := 1 + vf.Choose("chunk", m)
	copy(b, verifContent[verifPos:verifPos+n])
	verifPos += n
	verifReads++
	return n, nil
}

type verifFI struct{ size int64 }

func (f verifFI) Name() string       { return "f" }
func (f verifFI) Size() int64        { return f.size }
func (f verifFI) Mode() os.FileMode  { return 0 }
func (f verifFI) ModTime() time.Time { return time.Time{} }
func (f verifFI) IsDir() bool        { return false }
func (f verifFI) Sys() any           { return nil }

// replaces (*os.File).Stat: the file holds verifStart earlier bytes plus everything appended
func verifStubStat(f *os.File) (os.FileInfo, error) {
	return verifFI{verifStart + int64(verifAvail)}, nil
}

func verifNewProvider() *jobProvider {
	return &jobProvider{
		config:           &Config{},
		jobs:             map[pipeline.SourceID]*Job{},
		jobsMu:           &sync.RWMutex{},
		jobsChan:         make(chan *Job, 8),
		symlinks:         map[inodeID]string{},
		symlinksMu:       &sync.Mutex{},
		jobsDone:         atomic.NewInt32(0),
		offsetsCommitted: atomic.NewInt64(0),
	}
}

// reference: the complete lines of content with the offset just after each newline
func verifRefLines(content []byte, start int64, max int, cut, skip bool) (calls []verifCall, over []bool, tail []byte) {
	ls := 0
	for i, c := range content {
		if c != '\n' {
			continue
		}
		line := content[ls : i+1]
		ls = i + 1
		isOver := max != 0 && len(line) > max
		if skip {
			skip = false
			continue
		}
		if isOver && !cut {
			continue
		}
		if len(line) == 1 {
			continue // an empty line is refused by the pipeline's admission check
		}
		calls = append(calls, verifCall{start + int64(i+1), line})
		over = append(over, isOver)
	}
	return calls, over, content[ls:]
}

// verifShaped returns n bytes where every position is either a newline (a case
// split made up-front) or an arbitrary other byte (symbolic, assumed != newline).
func verifShaped(name string, n int) []byte {
	b := make([]byte, n)
	for i := range b {
		if vf.Choose(name+"-nl", 2) == 1 {
			b[i] = '\n'
		} else {
			c := vf.Byte(name)
			vf.Assume(c != '\n')
			b[i] = c
		}
	}
	return b
}

// C06.H1: worker.work on arbitrary content, chunking, buffer size, two append rounds.
func VerifH_C06_workerScan() {
	N := vf.Param("N", 5)
	n := vf.Param("NMIN", 0) + vf.Choose("n", N+1-vf.Param("NMIN", 0))
	content := verifShaped("content", n)
	split := n
	if vf.Param("rounds", 2) == 2 {
		split = vf.Choose("split", n+1)
	}
	bufSize := 1 + vf.Choose("buf", vf.Param("B", 3))
	maxes := []int{0, 1, 2, 3}
	var maxSet []int
	for i, m := range maxes {
		if vf.Param("maxset", 0b1101)&(1<<i) != 0 {
			maxSet = append(maxSet, m)
		}
	}
	max := maxSet[vf.Choose("max", len(maxSet))]
	cut := false
	if max != 0 {
		switch vf.Param("cutmode", 2) { // 0: never, 1: always, 2: both
		case 1:
			cut = true
		case 2:
			cut = vf.Choose("cut", 2) == 1
		}
	}
	skip := false
	if vf.Param("skipmode", 1) == 1 {
		skip = vf.Choose("skip", 2) == 1
	}
	start := vf.Int64("start", 0, 1<<40)
	twin := vf.Param("twin", 0) == 1

	jp := verifNewProvider()
	job := &Job{sourceID: 1, filename: "f", curOffset: start, mu: &sync.Mutex{}, isVirgin: true}
	job.shouldSkip.Store(skip)
	jp.jobs[1] = job
	rec := &verifRec{admit: vf.Param("admit", 1) == 1, max: max, cut: cut}
	w := &worker{maxEventSize: max, cutOffEventByLimit: cut}

	verifContent, verifPos, verifAvail, verifStart, verifReads = content, 0, split, start, 0
	jp.jobsChan <- job
	jp.jobsChan <- nil
	w.work(rec, jp, bufSize, nil)
	vf.Assert(job.isDone, "round1-job-done-at-eof")
	vf.Assert(job.curOffset == start+int64(split), "round1-cur-offset")
	tailAfter1 := len(job.tail)
	if split < n {
		// new data appeared: the provider resumes the job
		job.mu.Lock()
		jp.tryResumeJobAndUnlock(job, "f")
		jp.jobsChan <- nil
		verifAvail = n
		w.work(rec, jp, bufSize, nil)
		if tailAfter1 > 0 {
			vf.Reach("tail-carried-across-rounds")
		}
	}

	want, over, tail := verifRefLines(content, start, max, cut, skip)
	vf.Assert(job.curOffset == start+int64(n), "cur-offset-is-bytes-consumed")
	if !(max != 0 && len(tail) > max) {
		vf.Assert(vf.SameBytes(job.tail, tail), "tail-held-back")
	}
	vf.Assert(len(rec.calls) == len(want), "number-of-lines")
	if len(rec.calls) != len(want) {
		return
	}
	for i := range want {
		if twin {
			vf.Assert(rec.calls[i].off == want[i].off+1, "line-offset")
			continue
		}
		vf.Assert(rec.calls[i].off == want[i].off, "line-offset")
		if !over[i] {
			vf.Assert(vf.SameBytes(rec.calls[i].data, want[i].data), "line-data")
		} else {
			// cut-off mode: the worker hands over at least the first max bytes and the newline
			// cut-off: exactly the first max bytes of the line plus its newline
			d := rec.calls[i].data
			vf.Assert(len(d) == max+1 && vf.SameBytes(d[:max], want[i].data[:max]) && d[max] == '\n', "oversize-cut-exact")
			vf.Reach("oversize-cut")
		}
	}
	if len(want) >= 2 {
		vf.Reach("two-lines")
	}
	vf.Observe("lines", len(rec.calls))
}

// ---- two files served by one worker ----

type verifFile struct {
	content []byte
	pos     int
	avail   int
}

var verifFiles map[*os.File]*verifFile

func verifStubRead2(f *os.File, b []byte) (int, error) {
	vfile := verifFiles[f]
	rem := vfile.avail - vfile.pos
	if rem == 0 {
		return 0, io.EOF
	}
	m := len(b)
	if rem < m {
		m = rem
	}
	n := 1 + vf.Choose("chunk", m)
	copy(b, vfile.content[vfile.pos:vfile.pos+n])
	vfile.pos += n
	return n, nil
}

func verifStubStat2(f *os.File) (os.FileInfo, error) {
	return verifFI{int64(verifFiles[f].avail)}, nil
}

type verifRec2 struct {
	calls  map[pipeline.SourceID][]verifCall
	savedS map[pipeline.SourceID]int64 // per source: the saved offset of stream "s" (-1: none)
}

func (r *verifRec2) In(id pipeline.SourceID, name string, off pipeline.Offsets, data []byte, isNew bool, _ metadata.MetaData) uint64 {
	r.calls[id] = append(r.calls[id], verifCall{pipeline.VerifOffsetsCurrent(off), append([]byte(nil), data...)})
	if r.savedS != nil {
		// the saved per-stream offsets the pipeline is given with a line decide whether the line counts as
		// already processed: they must be the ones of the line's own file
		vf.Assert(off.ByStream("s") == r.savedS[id], "line-comes-with-its-own-files-saved-stream-offsets")
	}
	return uint64(len(r.calls[id]))
}
func (r *verifRec2) IncReadOps()                           {}
func (r *verifRec2) IncMaxEventSizeExceeded(lvs ...string) {}

// C06.H2: one worker goroutine serves file A (left with an unterminated tail),
// then file B, then A again after an append: lines of A and B never mix.
func VerifH_C06_twoJobs() {
	na := 1 + vf.Choose("na", vf.Param("NA", 4))
	nb := 1 + vf.Choose("nb", vf.Param("NB", 3))
	a := verifShaped("a", na)
	b := verifShaped("b", nb)
	splitA := vf.Choose("splitA", na+1)
	bufSize := 1 + vf.Choose("buf", vf.Param("B", 3))
	twin := vf.Param("twin", 0) == 1

	fa, fb := new(os.File), new(os.File)
	verifFiles = map[*os.File]*verifFile{fa: {content: a, avail: splitA}, fb: {content: b, avail: nb}}
	jp := verifNewProvider()
	ja := &Job{file: fa, sourceID: 1, filename: "a", mu: &sync.Mutex{}, isVirgin: true}
	jb := &Job{file: fb, sourceID: 2, filename: "b", mu: &sync.Mutex{}, isVirgin: true}
	jp.jobs[1], jp.jobs[2] = ja, jb
	rec := &verifRec2{calls: map[pipeline.SourceID][]verifCall{}}
	if vf.Param("saved", 1) == 1 {
		// either file may or may not have a saved offset for stream "s" (offsets beyond the data: nothing is skipped by the worker itself)
		rec.savedS = map[pipeline.SourceID]int64{1: -1, 2: -1}
		if vf.Choose("a-has-saved-offset", 2) == 1 {
			ja.offsets.Set("s", 0)
			rec.savedS[1] = 0
		}
		if vf.Choose("b-has-saved-offset", 2) == 1 {
			jb.offsets.Set("s", 0)
			jb.offsets.Set("t", 0)
			rec.savedS[2] = 0
		}
	}
	w := &worker{}
	done := make(chan struct{})
	go func() {
		w.work(rec, jp, bufSize, nil)
		close(done)
	}()
	jp.jobsChan <- ja
	vf.Quiesce(0)
	jp.jobsChan <- jb
	vf.Quiesce(0)
	vf.Assert(ja.isDone && jb.isDone, "both-at-eof")
	if len(ja.tail) > 0 && splitA < na {
		vf.Reach("a-left-with-tail")
	}
	if splitA < na {
		verifFiles[fa].avail = na
		ja.mu.Lock()
		jp.tryResumeJobAndUnlock(ja, "a")
		vf.Quiesce(0)
	}
	jp.jobsChan <- nil
	<-done

	wantA, _, tailA := verifRefLines2(a)
	wantB, _, tailB := verifRefLines2(b)
	if twin {
		vf.Assert(len(rec.calls[1]) == len(wantA)+1, "a-lines")
		return
	}
	vf.Assert(len(rec.calls[1]) == len(wantA), "a-lines")
	vf.Assert(len(rec.calls[2]) == len(wantB), "b-lines")
	vf.Assert(vf.SameBytes(ja.tail, tailA), "a-tail")
	vf.Assert(vf.SameBytes(jb.tail, tailB), "b-tail")
	if len(rec.calls[1]) == len(wantA) {
		for i := range wantA {
			vf.Assert(rec.calls[1][i].off == wantA[i].off, "a-offset")
			vf.Assert(vf.SameBytes(rec.calls[1][i].data, wantA[i].data), "a-data")
		}
	}
	if len(rec.calls[2]) == len(wantB) {
		for i := range wantB {
			vf.Assert(rec.calls[2][i].off == wantB[i].off, "b-offset")
			vf.Assert(vf.SameBytes(rec.calls[2][i].data, wantB[i].data), "b-data")
		}
	}
}

// all complete lines (empty ones included: the recording controller does no admission check)
func verifRefLines2(content []byte) (calls []verifCall, over []bool, tail []byte) {
	ls := 0
	for i, c := range content {
		if c != '\n' {
			continue
		}
		calls = append(calls, verifCall{int64(i + 1), content[ls : i+1]})
		ls = i + 1
	}
	return calls, nil, content[ls:]
}

// ---- compressed (.lz4) files: resume skips already processed data by reading, not seeking ----

// replaces lz4.NewReader and (*lz4.Reader).Read: the decompressed stream is verifContent, handed out
// in arbitrary chunks; the last chunk may come together with io.EOF
func verifStubLz4NewReader(r io.Reader) *lz4.Reader { return new(lz4.Reader) }

func verifStubLz4Read(z *lz4.Reader, b []byte) (int, error) {
	rem := verifAvail - verifPos
	if rem == 0 {
		return 0, io.EOF
	}
	m := len(b)
	if rem < m {
		m = rem
	}
	n := 1 + vf.Choose("chunk", m)
	copy(b, verifContent[verifPos:verifPos+n])
	verifPos += n
	if verifPos == verifAvail && vf.Choose("eof-with-data", 2) == 1 {
		return n, io.EOF
	}
	return n, nil
}

func verifStubNotBeingWritten(string) bool { return false }
func verifStubFileName(*os.File) string    { return "f.lz4" }

// C06.H3 / C03: a compressed file resumed from a saved offset: every complete line that ends after
// the saved offset is handed over exactly once with its end offset; nothing torn is handed over
// with an offset past the saved one (lines at or before it are dropped later by their offset).
func VerifH_C06_lz4Resume() {
	N := vf.Param("N", 6)
	n := 1 + vf.Choose("n", N)
	content := verifShaped("content", n)
	bufSize := 1 + vf.Choose("buf", vf.Param("B", 3))
	// the saved offset is the end of one of the lines (or 0: nothing saved)
	var ends []int64
	for i, c := range content {
		if c == '\n' {
			ends = append(ends, int64(i+1))
		}
	}
	saved := int64(0)
	if len(ends) > 0 {
		if k := vf.Choose("saved-line", len(ends)+1); k > 0 {
			saved = ends[k-1]
		}
	}
	twin := vf.Param("twin", 0) == 1

	jp := verifNewProvider()
	job := &Job{file: new(os.File), sourceID: 1, filename: "f.lz4", mimeType: "application/x-lz4", isCompressed: true, mu: &sync.Mutex{}, isVirgin: true}
	if saved > 0 {
		job.offsets = pipeline.SliceFromMap(map[pipeline.StreamName]int64{"not_set": saved})
	}
	jp.jobs[1] = job
	rec := &verifRec{}
	w := &worker{}
	verifContent, verifPos, verifAvail, verifStart, verifReads = content, 0, n, 0, 0
	jp.jobsChan <- job
	jp.jobsChan <- nil
	w.work(rec, jp, bufSize, nil)

	var want []verifCall // every complete line (empty ones included: no admission check here)
	ls := 0
	for i, c := range content {
		if c == '\n' {
			want = append(want, verifCall{int64(i + 1), content[ls : i+1]})
			ls = i + 1
		}
	}
	// delivered with an offset past the saved one
	var got []verifCall
	for _, c := range rec.calls {
		if c.off > saved {
			got = append(got, c)
		}
	}
	var wantAfter []verifCall
	for _, c := range want {
		if c.off > saved {
			wantAfter = append(wantAfter, c)
		}
	}
	if twin {
		vf.Assert(len(got) != len(wantAfter), "lines-after-the-saved-offset")
		return
	}
	vf.Assert(len(got) == len(wantAfter), "lines-after-the-saved-offset")
	if len(got) != len(wantAfter) {
		return
	}
	for i := range wantAfter {
		vf.Assert(got[i].off == wantAfter[i].off, "line-offset")
		vf.Assert(vf.SameBytes(got[i].data, wantAfter[i].data), "line-data")
	}
	if saved > int64(bufSize) && len(wantAfter) > 0 {
		vf.Reach("resumed-past-skipped-data")
	}
}

// ---- maintenance: a done job's descriptor is closed and reopened (to release deleted files) ----

type verifFD struct {
	pos    int64
	closed bool
}

var (
	verifFDs     map[*os.File]*verifFD
	verifFDSize  int64
	errVerifFile = errors.New("verif: file already closed")
)

type verifFI2 struct{ size int64 }

func (f verifFI2) Name() string       { return "f" }
func (f verifFI2) Size() int64        { return f.size }
func (f verifFI2) Mode() os.FileMode  { return 0 }
func (f verifFI2) ModTime() time.Time { return time.Time{} }
func (f verifFI2) IsDir() bool        { return false }
func (f verifFI2) Sys() any           { return &syscall.Stat_t{Ino: 7} }

func verifStubStatFD(f *os.File) (os.FileInfo, error) {
	if verifFDs[f].closed {
		return nil, errVerifFile
	}
	return verifFI2{verifFDSize}, nil
}
func verifStubSeekFD(f *os.File, offset int64, whence int) (int64, error) {
	fd := verifFDs[f]
	if fd.closed {
		return 0, errVerifFile
	}
	switch whence {
	case 0:
		fd.pos = offset
	case 1:
		fd.pos += offset
	case 2:
		fd.pos = verifFDSize + offset
	}
	return fd.pos, nil
}
func verifStubCloseFD(f *os.File) error {
	verifFDs[f].closed = true
	return nil
}
func verifStubOpenFD(name string) (*os.File, error) {
	f := new(os.File)
	verifFDs[f] = &verifFD{}
	return f, nil
}

// C06.H4: the maintenance pass over a job that was read to the end of file: its descriptor is
// reopened and reading resumes exactly where it stopped (nothing is handed over twice, nothing skipped).
func VerifH_C06_maintenanceReopen() {
	size := int64(vf.Int("size", 1, 1<<30))
	verifFDSize = size
	f := new(os.File)
	verifFDs = map[*os.File]*verifFD{f: {pos: size}}
	jp := verifNewProvider()
	job := &Job{file: f, sourceID: 1, filename: "/d/f", inode: 7, curOffset: size, mu: &sync.Mutex{}, isDone: true}
	job.tail = []byte("bb") // an unterminated tail is held back
	jp.jobs[1] = job
	jp.jobsDone.Inc()
	res := jp.maintenanceJob(job)
	if vf.Param("twin", 0) == 1 {
		vf.Assert(job.curOffset != size, "maintenance-keeps-the-read-position")
		return
	}
	vf.Assert(res == maintenanceResultNoop, "idle-job-reopened")
	vf.Assert(job.file != f && verifFDs[f].closed && !verifFDs[job.file].closed, "descriptor-reopened")
	vf.Assert(job.curOffset == size && verifFDs[job.file].pos == size, "maintenance-keeps-the-read-position")
	vf.Assert(string(job.tail) == "bb", "held-back-tail-kept")
	vf.Reach("reopened")
}
