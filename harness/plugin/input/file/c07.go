package file

import (
	"errors"
	"os"
	"sync"
	"time"

	"github.com/ozontech/file.d/pipeline"
	"go.uber.org/zap"

	vf "github.com/ozontech/file.d/zzverif"
)

// ---- recorded file-system trace ----

type verifOp struct {
	op   string // open | write | sync | close | rename
	ok   bool
	name string // open: file name; rename: old name
	to   string // rename: new name
	data []byte // write: the bytes
}

var (
	verifTrace   []verifOp
	verifFaults  bool
	errVerifIO   = errors.New("verif: i/o error")
	verifTmpFile = new(os.File)
)

func verifFail(what string) bool {
	return verifFaults && vf.Choose("fail-"+what, 2) == 1
}

func verifStubOpenFile(name string, flag int, perm os.FileMode) (*os.File, error) {
	if verifFail("open") {
		verifTrace = append(verifTrace, verifOp{op: "open", name: name})
		return nil, errVerifIO
	}
	verifTrace = append(verifTrace, verifOp{op: "open", ok: true, name: name})
	return verifTmpFile, nil
}

func verifStubWrite(f *os.File, b []byte) (int, error) {
	if verifFail("write") {
		verifTrace = append(verifTrace, verifOp{op: "write"})
		return 0, errVerifIO
	}
	verifTrace = append(verifTrace, verifOp{op: "write", ok: true, data: append([]byte(nil), b...)})
	return len(b), nil
}

func verifStubSync(f *os.File) error {
	if verifFail("sync") {
		verifTrace = append(verifTrace, verifOp{op: "sync"})
		return errVerifIO
	}
	verifTrace = append(verifTrace, verifOp{op: "sync", ok: true})
	return nil
}

func verifStubClose(f *os.File) error {
	verifTrace = append(verifTrace, verifOp{op: "close", ok: true})
	return nil
}

func verifStubRename(from, to string) error {
	if verifFail("rename") {
		verifTrace = append(verifTrace, verifOp{op: "rename", name: from, to: to})
		return errVerifIO
	}
	verifTrace = append(verifTrace, verifOp{op: "rename", ok: true, name: from, to: to})
	return nil
}

// replaces os.Remove: a clean-up may remove files; removing the current offsets file is never right
func verifStubRemove(name string) error {
	verifTrace = append(verifTrace, verifOp{op: "remove", ok: true, name: name})
	vf.Assert(name != "offsets.yaml", "current-offsets-file-is-never-removed")
	return nil
}

func verifJob(id pipeline.SourceID, name string, inode uint64) *Job {
	return &Job{sourceID: id, filename: name, inode: inodeID(inode), mu: &sync.Mutex{}}
}

// C07.H1: the save protocol: temp file, full write, fsync, then rename; a failed step never replaces
// the good file; and a save that follows a failed one still writes exactly the current table.
func VerifH_C07_saveProtocol() {
	verifTrace, verifFaults = nil, true
	db := newOffsetDB("offsets.yaml", "offsets.tmp")
	job := verifJob(1, "f", 10)
	job.offsets.Set("s", 5)
	job2 := verifJob(2, "g", 20)
	job2.offsets.Set("t", 7)
	job2.offsets.Set("z", 0)        // a stream whose first event is not committed yet is a stream of the table too
	job3 := verifJob(3, "link", 10) // the file of job 1 followed a second time through a symlink: same inode, another source id
	job3.offsets.Set("s", 2)
	jobs := map[pipeline.SourceID]*Job{1: job, 2: job2, 3: job3}
	saves := 1 + vf.Choose("saves", vf.Param("SAVES", 2))
	for i := 0; i < saves; i++ {
		db.save(jobs, &sync.RWMutex{})
		verifTrace = append(verifTrace, verifOp{op: "end-of-save"})
	}

	opened, written, synced := "", false, false
	var payload []byte
	for _, t := range verifTrace {
		switch t.op {
		case "end-of-save":
			opened, written, synced, payload = "", false, false, nil
		case "open":
			if t.ok {
				opened = t.name
			}
		case "write":
			written = t.ok
			payload = t.data
		case "sync":
			synced = t.ok && written
		case "rename":
			vf.Reach("renamed")
			if vf.Param("twin", 0) == 1 {
				vf.Assert(!written, "rename-only-after-successful-write")
				continue
			}
			vf.Assert(opened != "" && t.name == opened, "rename-moves-the-temp-file")
			vf.Assert(t.to == "offsets.yaml", "rename-replaces-the-current-file")
			vf.Assert(written, "rename-only-after-successful-write")
			vf.Assert(synced, "rename-only-after-successful-fsync")
			vf.Assert(len(payload) > 0, "renamed-snapshot-is-complete")
			if t.ok && written {
				loaded, err := db.parse(string(payload))
				vf.Assert(err == nil, "renamed-snapshot-loads")
				if err == nil {
					ok := len(loaded) == 3 && loaded[1] != nil && loaded[2] != nil && loaded[3] != nil && loaded[1].streams["s"] == 5 && loaded[2].streams["t"] == 7 && loaded[3].streams["s"] == 2
					if ok {
						z, has := loaded[2].streams["z"]
						ok = has && z == 0 && len(loaded[2].streams) == 2 && len(loaded[1].streams) == 1
					}
					vf.Assert(ok, "renamed-snapshot-is-the-current-table")
				}
			}
		}
	}
}

// C07.H2: whatever the writer emits for a job table, the parser loads back exactly that table.
func VerifH_C07_roundTrip() {
	verifTrace, verifFaults = nil, false
	db := newOffsetDB("offsets.yaml", "offsets.tmp")
	njobs := 1 + vf.Choose("jobs", vf.Param("J", 2))
	jobs := map[pipeline.SourceID]*Job{}
	nameHasNL, emptyStream := false, false
	symName := func(what string, maxLen int) string {
		k := vf.Choose(what+"-len", maxLen+1)
		b := vf.Bytes(what, k)
		for _, c := range b {
			if c == '\n' {
				nameHasNL = true
			}
		}
		return string(b)
	}
	numbers := []int64{1, 12345, 1<<63 - 1, 9, 10, 99, 100}[:vf.Param("NUMS", 7)]
	type wantStream struct {
		name string
		off  int64
	}
	type wantJob struct {
		id      pipeline.SourceID
		name    string
		streams []wantStream
	}
	var wantJobs []wantJob
	for j := 0; j < njobs; j++ {
		id := pipeline.SourceID(j + 1)
		if vf.Choose("big-id", 2) == 1 {
			id = pipeline.SourceID(1<<64 - 1 - uint64(j))
		}
		job := verifJob(id, symName("file-name", vf.Param("FNL", 2)), uint64(numbers[vf.Choose("inode", len(numbers))]))
		ns := vf.Choose("streams", vf.Param("S", 2)+1)
		w := wantJob{id: id, name: job.filename}
		for s := 0; s < ns; s++ {
			name := symName("stream-name", vf.Param("NL", 2))
			for _, prev := range w.streams {
				vf.Assume(name != prev.name)
			}
			off := numbers[vf.Choose("offset", len(numbers))]
			if name == "" {
				emptyStream = true
			}
			job.offsets.Set(pipeline.StreamName(name), off)
			w.streams = append(w.streams, wantStream{name, off})
		}
		jobs[id] = job
		if ns > 0 {
			wantJobs = append(wantJobs, w)
		}
	}
	db.save(jobs, &sync.RWMutex{})
	var payload []byte
	for _, t := range verifTrace {
		if t.op == "write" {
			payload = t.data
		}
	}
	got, err := db.parse(string(payload))
	label := "roundtrip"
	switch {
	case nameHasNL:
		label = "roundtrip-name-with-newline"
	case emptyStream:
		label = "roundtrip-empty-stream-name"
	}
	if vf.Param("twin", 0) == 1 {
		vf.Assert(err != nil, label+"-loads")
		return
	}
	vf.Assert(err == nil, label+"-loads")
	if err != nil {
		return
	}
	vf.Assert(len(got) == len(wantJobs), label+"-same-jobs")
	for _, w := range wantJobs {
		g, ok := got[w.id]
		vf.Assert(ok, label+"-job-present")
		if !ok {
			continue
		}
		vf.Assert(g.filename == w.name, label+"-file-name")
		vf.Assert(len(g.streams) == len(w.streams), label+"-stream-count")
		for _, ws := range w.streams {
			goff, ok := g.streams[pipeline.StreamName(ws.name)]
			vf.Assert(ok && goff == ws.off, label+"-stream-offset")
		}
	}
	vf.Reach("round-trip-checked")
}

// C07.H3: saves racing with commits (and with each other): every snapshot that replaces the
// offsets file loads, and holds an offset that had been committed by then.
func VerifH_C07_snapshotNotAhead() {
	verifTrace, verifFaults = nil, false
	jp := verifNewProvider()
	jp.offsetDB = newOffsetDB("offsets.yaml", "offsets.tmp")
	job := verifJob(1, "f", 10)
	jp.jobs[1] = job
	started := int64(0)
	finished := int64(0)
	done := make(chan struct{}, 3)
	go func() {
		for i := 1; i <= vf.Param("C", 2); i++ {
			started = int64(i)
			jp.commit(pipeline.VerifNewEvent(1, int64(i), uint64(i), "s"))
			finished = int64(i)
		}
		done <- struct{}{}
	}()
	savers := vf.Param("SAVERS", 2)
	finishedBeforeSave := make([]int64, savers)
	for s := 0; s < savers; s++ {
		s := s
		go func() {
			finishedBeforeSave[s] = finished
			jp.offsetDB.save(jp.jobs, jp.jobsMu)
			done <- struct{}{}
		}()
	}
	for i := 0; i < savers+1; i++ {
		<-done
	}
	// every rename in the trace carries the last successfully written payload
	var payload []byte
	startedAtWrite := int64(0)
	_ = startedAtWrite
	for _, t := range verifTrace {
		switch t.op {
		case "write":
			payload = t.data
		case "rename":
			got, err := jp.offsetDB.parse(string(payload))
			if vf.Param("twin", 0) == 1 {
				vf.Assert(err != nil, "snapshot-loads")
				continue
			}
			vf.Assert(err == nil, "snapshot-loads")
			if err == nil && savers == 1 && finishedBeforeSave[0] >= 1 {
				// a commit that completed before the save began is in the snapshot (a busy job is waited for, not skipped)
				vf.Assert(got[1] != nil && got[1].streams["s"] >= finishedBeforeSave[0], "snapshot-holds-what-was-committed-before-the-save")
			}
			if err == nil && got[1] != nil {
				off := got[1].streams["s"]
				vf.Assert(off >= 1 && off <= started, "snapshot-holds-a-committed-offset")
				vf.Reach("snapshot-with-offset")
			}
			vf.Reach("snapshot-renamed")
		}
	}
}

// C07.H5: persistence_mode=sync: every commit rewrites the offsets file, and each rewritten file is a
// complete snapshot of all sources (not only of the source the committed event belongs to).
func VerifH_C07_syncModeSnapshotComplete() {
	verifTrace, verifFaults = nil, false
	jp := verifNewProvider()
	jp.config.PersistenceMode_ = persistenceModeSync
	jp.offsetDB = newOffsetDB("offsets.yaml", "offsets.tmp")
	jp.jobs[1] = verifJob(1, "f", 10)
	jp.jobs[2] = verifJob(2, "g", 20)
	last := map[pipeline.SourceID]int64{}
	seq := map[pipeline.SourceID]uint64{}
	for i := 0; i < vf.Param("C", 3); i++ {
		id := pipeline.SourceID(1 + vf.Choose("source", 2))
		seq[id]++
		last[id] += 10
		verifTrace = nil
		jp.commit(pipeline.VerifNewEvent(id, last[id], seq[id], "s"))
		var payload []byte
		renamed := false
		for _, t := range verifTrace {
			if t.op == "write" && t.ok {
				payload = t.data
			}
			if t.op == "rename" && t.ok {
				renamed = true
			}
		}
		if vf.Param("twin", 0) == 1 {
			vf.Assert(!renamed, "sync-mode-saves-on-every-commit")
			return
		}
		vf.Assert(renamed, "sync-mode-saves-on-every-commit")
		got, err := jp.offsetDB.parse(string(payload))
		vf.Assert(err == nil, "snapshot-loads")
		if err != nil {
			return
		}
		for sid, off := range last {
			vf.Assert(got[sid] != nil && got[sid].streams["s"] == off, "snapshot-holds-every-source")
		}
	}
	if len(last) == 2 {
		vf.Reach("two-sources-committed")
	}
}

// stubs for jobProvider.start: no file system watcher, no statistics, no maintenance
func verifStubWatcherStart(w *watcher)     {}
func verifStubReportStats(jp *jobProvider) {}
func verifStubMaintenance(jp *jobProvider) {}

// C07.H6: the provider as it is started in the default persistence mode (async): the periodic saver it
// starts follows the same protocol as a direct save - complete write, fsync, then rename - and its
// snapshot holds what was committed.
func VerifH_C07_asyncStartSaves() {
	verifTrace, verifFaults = nil, false
	jp := verifNewProvider()
	jp.config.PersistenceMode_ = persistenceModeAsync
	jp.config.AsyncInterval_ = 100 * time.Millisecond
	jp.config.OffsetsOp_ = offsetsOpReset
	jp.stopSaveOffsetsCh = make(chan bool)
	if !vf.Symbolic() {
		jp.logger = zap.NewNop().Sugar()
	}
	jp.offsetDB = newOffsetDB("offsets.yaml", "offsets.tmp")
	jp.jobs[1] = verifJob(1, "f", 10)
	jp.start()
	C := 1 + vf.Choose("commits", vf.Param("C", 2))
	for i := 1; i <= C; i++ {
		jp.commit(pipeline.VerifNewEvent(1, int64(i*10), uint64(i), "s"))
		if vf.Choose("pause", 2) == 1 {
			time.Sleep(150 * time.Millisecond)
		}
	}
	vf.Quiesce(300)
	written, synced, renames := false, false, 0
	var payload []byte
	for _, t := range verifTrace {
		switch t.op {
		case "open":
			written, synced = false, false
		case "write":
			written, payload = t.ok, t.data
		case "sync":
			synced = t.ok && written
		case "rename":
			renames++
			vf.Assert(written, "rename-only-after-successful-write")
			vf.Assert(synced, "rename-only-after-successful-fsync")
		}
	}
	if vf.Param("twin", 0) == 1 {
		vf.Assert(renames == 0, "periodic-saver-saved-after-commits")
		return
	}
	vf.Assert(renames >= 1, "periodic-saver-saved-after-commits")
	if renames >= 1 {
		got, err := jp.offsetDB.parse(string(payload))
		vf.Assert(err == nil && got[1] != nil && got[1].streams["s"] == int64(C*10), "last-snapshot-holds-the-last-commit")
	}
	vf.Reach("async-saver-ran")
}
