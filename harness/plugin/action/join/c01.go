package join

import (
	"strings"

	"github.com/ozontech/file.d/pipeline"

	vf "github.com/ozontech/file.d/zzverif"
)

// C01 / C02 / C04 / C05 with the real join action inside the integrated pipeline (real streamer, processors,
// batcher, pools): lines that start a multi-line message ("S.."), continue it ("C.."), other strings,
// events whose join field is not a string and events without the field, in every order.
func VerifH_C01_pipelineRealJoin() {
	pipeline.VerifRealAction = func() (pipeline.ActionPlugin, pipeline.AnyConfig) {
		return &Plugin{}, &Config{Field_: []string{"log"},
			FirstCheck: func(s string) bool { return strings.HasPrefix(s, "S") },
			NextCheck:  func(s string) bool { return strings.HasPrefix(s, "C") }}
	}
	texts := map[int64]string{}   // record -> text of its join field ("" when it has none or it is not a string)
	streams := map[int64]string{} // record -> stream
	pipeline.VerifRealTimeouts = 0
	pipeline.VerifRealDoc = func(i int, stream string) string {
		head := `{"stream":"` + stream + `"`
		streams[int64(i)] = stream
		switch vf.Choose("line", vf.Param("LINES", 5)) {
		case 0:
			texts[int64(i)] = "S" + string(rune('0'+i))
			return head + `,"log":"S` + string(rune('0'+i)) + `"}`
		case 1:
			texts[int64(i)] = "C" + string(rune('0'+i))
			return head + `,"log":"C` + string(rune('0'+i)) + `"}`
		case 2:
			texts[int64(i)] = "x"
			return head + `,"log":"x"}`
		case 3:
			return head + `,"log":7}`
		}
		return head + `}`
	}
	pipeline.VerifRealOut = func(e *pipeline.Event) {
		if pipeline.VerifRealTimeouts > 0 {
			return // a stream time-out ends a run early: where exactly is the subject of joinRuns
		}
		o := e.Offset
		t := texts[o]
		if len(t) == 0 || t[0] != 'S' {
			return
		}
		// a start line leaves the action as the in-order concatenation of itself and the continuation
		// lines that follow it directly in its stream
		want := t
		for j := o + 1; ; j++ {
			if _, known := streams[j]; !known {
				break
			}
			if streams[j] != streams[o] {
				continue
			}
			c := texts[j]
			if len(c) == 0 || c[0] != 'C' {
				break
			}
			want += c
		}
		vf.Assert(e.Root.Dig("log").AsString() == want, "joined-event-is-the-in-order-concatenation-of-its-run")
	}
	pipeline.VerifH_C01_pipeline()
}
