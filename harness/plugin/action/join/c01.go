package join

import (
	"strings"

	"github.com/ozontech/file.d/pipeline"

	vf "github.com/ozontech/file.d/zzverif"
)

// C01 / C02 / C04 / C05 with the real join action inside the integrated pipeline (real streamer, processors,
// batcher, pools): lines that start a multi-line message ("S.."), continue it ("C.."), other strings,
// events whose join field is not a string and events without the field, in every order.
func VerifH_C01_pipelineRealJoin() {
	pipeline.VerifRealAction = func() (pipeline.ActionPlugin, pipeline.AnyConfig) {
		return &Plugin{}, &Config{Field_: []string{"log"},
			FirstCheck: func(s string) bool { return strings.HasPrefix(s, "S") },
			NextCheck:  func(s string) bool { return strings.HasPrefix(s, "C") }}
	}
	pipeline.VerifRealDoc = func(i int, stream string) string {
		head := `{"stream":"` + stream + `"`
		switch vf.Choose("line", vf.Param("LINES", 5)) {
		case 0:
			return head + `,"log":"S` + string(rune('0'+i)) + `"}`
		case 1:
			return head + `,"log":"C` + string(rune('0'+i)) + `"}`
		case 2:
			return head + `,"log":"x"}`
		case 3:
			return head + `,"log":7}`
		}
		return head + `}`
	}
	pipeline.VerifH_C01_pipeline()
}
