package join

import (
	"github.com/ozontech/file.d/pipeline"
	insaneJSON "github.com/ozontech/insane-json"
	"go.uber.org/zap"

	vf "github.com/ozontech/file.d/zzverif"
)

// recording action controller: what leaves the action, in order
type verifCtl struct {
	out []*pipeline.Event
}

func (c *verifCtl) Propagate(e *pipeline.Event)                            { c.out = append(c.out, e) }
func (c *verifCtl) Spawn(parent *pipeline.Event, nodes []*insaneJSON.Node) {}
func (c *verifCtl) IncMaxEventSizeExceeded(lvs ...string)                  {}

type verifEv struct {
	ev       *pipeline.Event
	hasField bool
	isString bool
	value    []byte // the field's text
	start    bool   // verdict of the start pattern on this event (strings only)
	cont     bool   // verdict of the continue pattern
}

// C15.H1: join replaces each maximal run by one event with the in-order concatenation.
func VerifH_C15_joinRuns() {
	K := 1 + vf.Choose("events", vf.Param("K", 4))
	maxSize := vf.Choose("max-event-size", 4) // 0 = unlimited, else 1..3
	twin := vf.Param("twin", 0) == 1

	evs := make([]*verifEv, K)
	var cur *verifEv // the event Do is looking at (verdicts are per event, both checks pure)
	cfg := &Config{Field_: []string{"log"}, MaxEventSize: maxSize,
		FirstCheck: func(string) bool { return cur.start },
		NextCheck:  func(string) bool { return cur.cont }}
	ctl := &verifCtl{}
	p := &Plugin{}
	params := &pipeline.ActionPluginParams{Controller: ctl, PluginDefaultParams: pipeline.PluginDefaultParams{PipelineSettings: &pipeline.Settings{AvgEventSize: 8}}}
	if !vf.Symbolic() {
		params.Logger = zap.NewNop().Sugar()
	}
	p.Start(cfg, params)

	// reference state
	var want []*pipeline.Event
	var wantVal [][]byte // nil = unchanged
	joining := false
	var runStart *verifEv
	var runBuf []byte
	flushRef := func() {
		want = append(want, runStart.ev)
		wantVal = append(wantVal, append([]byte{}, runBuf...))
		joining = false
	}

	for i := 0; i < K; i++ {
		e := &verifEv{}
		root := insaneJSON.Spawn()
		switch vf.Choose("shape", 3) {
		case 0:
			_ = root.DecodeString(`{"other":1}`)
		case 1:
			_ = root.DecodeString(`{"log":7}`)
			e.hasField, e.value = true, []byte("7")
		case 2:
			_ = root.DecodeString(`{"log":"x"}`)
			txt := vf.Bytes("text", 1+vf.Choose("text-len", 2))
			for _, c := range txt {
				vf.Assume(c >= 'a' && c <= 'z')
			}
			root.Dig("log").MutateToString(string(txt))
			e.hasField, e.isString, e.value = true, true, txt
		}
		if e.isString {
			e.start = vf.Bool("is-start")
		}
		if e.hasField {
			e.cont = vf.Bool("is-continue")
		}
		e.ev = &pipeline.Event{Root: root, SeqID: uint64(i + 1)}
		evs[i] = e

		// the processor may deliver a stream time-out while the action holds an event
		if joining && vf.Choose("timeout-before", 2) == 1 {
			to := &pipeline.Event{}
			to.SetTimeoutKind()
			res := p.Do(to)
			vf.Assert(res == pipeline.ActionDiscard, "timeout-event-is-discarded")
			flushRef()
			vf.Reach("flushed-by-timeout")
		}

		cur = e
		res := p.Do(e.ev)
		// reference classification
		switch {
		case !e.hasField:
			if joining {
				flushRef()
			}
			vf.Assert(res == pipeline.ActionPass, "no-field-passes")
			want, wantVal = append(want, e.ev), append(wantVal, nil)
		case e.isString && e.start:
			if joining {
				flushRef()
			}
			joining, runStart, runBuf = true, e, append([]byte{}, e.value...)
			vf.Assert(res == pipeline.ActionHold, "start-line-is-held")
		case joining && e.cont:
			if maxSize == 0 || len(runBuf) < maxSize {
				runBuf = append(runBuf, e.value...)
			}
			vf.Assert(res == pipeline.ActionCollapse, "continuation-is-collapsed")
			vf.Reach("continued")
		default:
			if joining {
				flushRef()
			}
			vf.Assert(res == pipeline.ActionPass, "other-line-passes")
			want, wantVal = append(want, e.ev), append(wantVal, nil)
		}
		if res == pipeline.ActionPass {
			ctl.out = append(ctl.out, e.ev) // the processor sends a passed event on after Do returns
		}
	}
	if joining { // the stream falls silent: the time-out closes the run
		to := &pipeline.Event{}
		to.SetTimeoutKind()
		p.Do(to)
		flushRef()
	}

	if twin {
		vf.Assert(len(ctl.out) != len(want), "output-sequence")
		return
	}
	vf.Assert(len(ctl.out) == len(want), "output-sequence")
	if len(ctl.out) != len(want) {
		return
	}
	for i := range want {
		vf.Assert(ctl.out[i] == want[i], "output-order")
		if wantVal[i] != nil {
			got := ctl.out[i].Root.Dig("log").AsBytes()
			vf.Assert(vf.SameBytes(got, wantVal[i]), "joined-text-is-in-order-concatenation")
		}
	}
}
