package join_template

import (
	"github.com/ozontech/file.d/pipeline"
	insaneJSON "github.com/ozontech/insane-json"
	"go.uber.org/zap"

	vf "github.com/ozontech/file.d/zzverif"
)

type verifCtl struct{ out []*pipeline.Event }

func (c *verifCtl) Propagate(e *pipeline.Event)                            { c.out = append(c.out, e) }
func (c *verifCtl) Spawn(parent *pipeline.Event, nodes []*insaneJSON.Node) {}
func (c *verifCtl) IncMaxEventSizeExceeded(lvs ...string)                  {}

// line kinds of the scenario: what each template says about them (by construction of the lines)
var verifLines = []struct {
	text               string
	drStart, drFinish  bool // go_data_race: start / finish (the template is negated: everything but the finish line continues)
	gpStart, gpContinu bool // go_panic
}{
	{"WARNING: DATA RACE", true, false, false, false},
	{"==================", false, true, false, false},
	{"panic: boom", false, false, true, true},
	{"goroutine 1 [running]:", false, false, false, true},
	{"\tmain.go:12 +0x1", false, false, false, true},
	{"hello world", false, false, false, false},
}

// C15.H4: join_template with templates [go_data_race, go_panic]: the first template whose start check
// accepts a line opens a run; the run continues while that template's continue check (negated for
// go_data_race) accepts; runs are replaced by the in-order concatenation, other lines pass unchanged.
func VerifH_C15_joinTemplateRuns() {
	K := 1 + vf.Choose("events", vf.Param("K", 4))
	ctl := &verifCtl{}
	p := &Plugin{}
	params := &pipeline.ActionPluginParams{Controller: ctl, PluginDefaultParams: pipeline.PluginDefaultParams{PipelineSettings: &pipeline.Settings{AvgEventSize: 8}}}
	if !vf.Symbolic() {
		params.Logger = zap.NewNop().Sugar()
	}
	p.Start(&Config{Field_: []string{"log"}, Templates: []string{"go_data_race", "go_panic"}}, params)

	var want []string
	joining, tmpl := false, 0
	run := ""
	for i := 0; i < K; i++ {
		l := verifLines[vf.Choose("line", len(verifLines))]
		if joining && vf.Choose("timeout-before", 2) == 1 {
			to := &pipeline.Event{}
			to.SetTimeoutKind()
			vf.Assert(p.Do(to) == pipeline.ActionDiscard, "timeout-event-is-discarded")
			want = append(want, run)
			joining = false
		}
		root := insaneJSON.Spawn()
		_ = root.DecodeString(`{"log":"x"}`)
		root.Dig("log").MutateToString(l.text)
		ev := &pipeline.Event{Root: root, SeqID: uint64(i + 1)}
		res := p.Do(ev)
		switch {
		case l.drStart || l.gpStart:
			if joining {
				want = append(want, run)
			}
			joining, run = true, l.text
			tmpl = 0
			if !l.drStart {
				tmpl = 1
			}
			vf.Assert(res == pipeline.ActionHold, "start-line-is-held")
		case joining && ((tmpl == 0 && !l.drFinish) || (tmpl == 1 && l.gpContinu)):
			run += l.text
			vf.Assert(res == pipeline.ActionCollapse, "continuation-is-collapsed")
			vf.Reach("continued")
		default:
			if joining {
				want = append(want, run)
				joining = false
			}
			vf.Assert(res == pipeline.ActionPass, "other-line-passes")
			want = append(want, l.text)
		}
		if res == pipeline.ActionPass {
			ctl.out = append(ctl.out, ev)
		}
	}
	if joining {
		to := &pipeline.Event{}
		to.SetTimeoutKind()
		p.Do(to)
		want = append(want, run)
	}
	if vf.Param("twin", 0) == 1 {
		vf.Assert(len(ctl.out) != len(want), "output-sequence")
		return
	}
	vf.Assert(len(ctl.out) == len(want), "output-sequence")
	if len(ctl.out) != len(want) {
		return
	}
	for i := range want {
		vf.Assert(ctl.out[i].Root.Dig("log").AsString() == want[i], "joined-text-is-in-order-concatenation")
	}
	if len(want) < K {
		vf.Reach("joined")
	}
}
