package json_extract

import (
	"github.com/ozontech/file.d/cfg"
	"github.com/ozontech/file.d/pipeline"
	insaneJSON "github.com/ozontech/insane-json"
	"go.uber.org/zap"

	vf "github.com/ozontech/file.d/zzverif"
)

// C13: json_extract on any content of the configured field: a fixed document prefix followed by a
// symbolic tail; extracted paths a, b.c and other (collides with an existing field).
func VerifH_C13_jsonExtract() {
	prefixes := []string{"", `{`, `{"a`, `{"a":`, `{"a":"`, `{"a":"\\`, `{"a":1`, `{"a":-`, `{"a":[`, `{"a":{"x":1}`, `{"b":{"c":`, `{"b":{"c":"v"}`, `{"z":[1,{"a":2}],"a":`, `{"other":`, `{"a":nul`, `{"a":1,"a":`}
	pre := prefixes[vf.Choose("prefix", len(prefixes))]
	tail := vf.Bytes("tail", vf.Choose("tail-len", vf.Param("T", 2)+1))
	if vf.Param("nofloat", 0) == 1 {
		// numbers with a fraction or an exponent whose digits are symbolic need symbolic floats (not encoded)
		for _, b := range tail {
			vf.Assume(b != '.' && b != 'e' && b != 'E')
		}
	}
	content := append([]byte(pre), tail...)
	root := insaneJSON.Spawn()
	if err := root.DecodeString(`{"f":"x","other":1}`); err != nil {
		panic("verif: bad template")
	}
	root.Dig("f").MutateToString(string(content))
	ev := &pipeline.Event{Root: root, Size: 20}
	p := &Plugin{}
	params := &pipeline.ActionPluginParams{PluginDefaultParams: pipeline.PluginDefaultParams{PipelineSettings: &pipeline.Settings{}}}
	if !vf.Symbolic() {
		params.Logger = zap.NewNop().Sugar()
	}
	c := &Config{Field_: []string{"f"}, ExtractFields: []cfg.FieldSelector{"a", "b.c", "other"}}
	if vf.Choose("with-prefix", 2) == 1 {
		c.Prefix = "p_"
	}
	p.Start(c, params)
	res := p.Do(ev)
	if vf.Param("twin", 0) == 1 {
		vf.Assert(res != pipeline.ActionPass, "twin")
		return
	}
	verifSurvives(res, ev)
	if ev.Root.Dig("a") != nil || ev.Root.Dig("p_a") != nil {
		vf.Reach("extracted")
	}
}

// ---- shared by the C13 harnesses (copied into each plugin package) ----

// verifFieldKinds: the value put under field "f" of the event
const verifKinds = 9

func verifDocWith(kind int) (string, bool) {
	switch kind {
	case 0:
		return `{"other":1}`, false // field absent
	case 1:
		return `{"f":null,"other":1}`, false
	case 2:
		return `{"f":123456789012345678901234567890,"other":1}`, false // huge number
	case 3:
		return `{"f":true,"other":1}`, false
	case 4:
		return `{"f":"","other":1}`, false
	case 5:
		return `{"f":{"k":"v","n":{"d":1}},"other":1}`, false
	case 6:
		return `{"f":[1,"a",{"x":null}],"other":1}`, false
	case 7:
		return `{"f":"plain text","other":1}`, false
	default:
		return `{"f":"xx","other":1}`, true // string with symbolic content
	}
}

// verifEvent builds the event; for the symbolic kind the string bytes are arbitrary (incl. invalid UTF-8)
func verifEvent(kind int, symLen int) *pipeline.Event {
	doc, sym := verifDocWith(kind)
	root := insaneJSON.Spawn()
	if err := root.DecodeString(doc); err != nil {
		panic("verif: bad template")
	}
	if sym {
		b := vf.Bytes("content", symLen)
		root.Dig("f").MutateToString(string(b))
	}
	return &pipeline.Event{Root: root, Size: len(doc)}
}

// verifSurvives: a defined action result and an event that still encodes to something that parses
func verifSurvives(res pipeline.ActionResult, ev *pipeline.Event) {
	vf.Assert(res == pipeline.ActionPass || res == pipeline.ActionCollapse || res == pipeline.ActionDiscard ||
		res == pipeline.ActionHold || res == pipeline.ActionBreak, "defined-action-result")
	if res == pipeline.ActionPass || res == pipeline.ActionBreak {
		out := ev.Root.EncodeToString()
		chk := insaneJSON.Spawn()
		vf.Assert(chk.DecodeString(out) == nil, "event-still-valid-json")
		vf.Assert(verifStrictJSON([]byte(out)), "event-still-strictly-valid-json")
	}
}

// verifStrictJSON: RFC 8259 validity of one document (plain Go; the data it sees here is concrete).
func verifStrictJSON(b []byte) bool {
	i := 0
	ws := func() {
		for i < len(b) && (b[i] == ' ' || b[i] == '\t' || b[i] == '\n' || b[i] == '\r') {
			i++
		}
	}
	var value func(depth int) bool
	str := func() bool {
		if i >= len(b) || b[i] != '"' {
			return false
		}
		i++
		for i < len(b) {
			c := b[i]
			switch {
			case c == '"':
				i++
				return true
			case c < 0x20:
				return false
			case c == '\\':
				if i+1 >= len(b) {
					return false
				}
				e := b[i+1]
				if e == 'u' {
					if i+5 >= len(b) {
						return false
					}
					for k := 2; k < 6; k++ {
						h := b[i+k]
						if !(h >= '0' && h <= '9' || h >= 'a' && h <= 'f' || h >= 'A' && h <= 'F') {
							return false
						}
					}
					i += 6
				} else if e == '"' || e == '\\' || e == '/' || e == 'b' || e == 'f' || e == 'n' || e == 'r' || e == 't' {
					i += 2
				} else {
					return false
				}
			default:
				i++
			}
		}
		return false
	}
	value = func(depth int) bool {
		ws()
		if i >= len(b) || depth > 8 {
			return false
		}
		switch c := b[i]; {
		case c == '"':
			return str()
		case c == '{':
			i++
			ws()
			if i < len(b) && b[i] == '}' {
				i++
				return true
			}
			for {
				ws()
				if !str() {
					return false
				}
				ws()
				if i >= len(b) || b[i] != ':' {
					return false
				}
				i++
				if !value(depth + 1) {
					return false
				}
				ws()
				if i < len(b) && b[i] == ',' {
					i++
					continue
				}
				if i < len(b) && b[i] == '}' {
					i++
					return true
				}
				return false
			}
		case c == '[':
			i++
			ws()
			if i < len(b) && b[i] == ']' {
				i++
				return true
			}
			for {
				if !value(depth + 1) {
					return false
				}
				ws()
				if i < len(b) && b[i] == ',' {
					i++
					continue
				}
				if i < len(b) && b[i] == ']' {
					i++
					return true
				}
				return false
			}
		case c == '-' || c >= '0' && c <= '9':
			st := i
			if c == '-' {
				i++
			}
			for i < len(b) && (b[i] >= '0' && b[i] <= '9' || b[i] == '.' || b[i] == 'e' || b[i] == 'E' || b[i] == '+' || b[i] == '-') {
				i++
			}
			return i > st && b[i-1] >= '0' && b[i-1] <= '9'
		default:
			for _, lit := range []string{"true", "false", "null"} {
				if i+len(lit) <= len(b) && string(b[i:i+len(lit)]) == lit {
					i += len(lit)
					return true
				}
			}
			return false
		}
	}
	if !value(0) {
		return false
	}
	ws()
	return i == len(b)
}
