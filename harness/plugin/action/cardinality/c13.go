package cardinality

import (
	"time"

	"github.com/ozontech/file.d/cfg"
	"github.com/ozontech/file.d/pipeline"
	insaneJSON "github.com/ozontech/insane-json"

	vf "github.com/ozontech/file.d/zzverif"
)

// C13: cardinality with every pair of key selectors (including ones that give the same metric label
// name) on every kind of field content: the number of label values handed to the metric equals the
// number of label names it was registered with (prometheus panics otherwise), the action result is
// defined and the event stays well-formed.
func VerifH_C13_cardinality() {
	kind := vf.Choose("field-kind", verifKinds)
	ev := verifEvent(kind, 1+vf.Choose("len", vf.Param("L", 1)))
	sels := []cfg.FieldSelector{"f", "f.k", "f_k", "other", "missing"}
	c := &Config{KeyFields: []cfg.FieldSelector{sels[vf.Choose("key1", len(sels))], sels[vf.Choose("key2", len(sels))]},
		Fields: []cfg.FieldSelector{"f", "other"}, Limit: vf.Choose("limit", 2), TTL_: time.Hour,
		Action: []string{"discard", "remove_fields", "nothing"}[vf.Choose("action", 3)]}
	p := &Plugin{}
	p.Start(c, &pipeline.ActionPluginParams{})
	names := keyMetricLabels(p.keys)
	if vf.Param("twin", 0) == 1 {
		vf.Assert(len(names) != len(p.keys.valsBuf), "one-label-value-per-label-name")
		return
	}
	vf.Assert(len(names) == len(p.keys.valsBuf), "one-label-value-per-label-name")
	for round := 0; round < 2; round++ {
		res := p.Do(ev)
		verifSurvives(res, ev)
	}
	vf.Reach("counted")
}

// ---- shared by the C13 harnesses (copied into each plugin package) ----

// verifFieldKinds: the value put under field "f" of the event
const verifKinds = 9

func verifDocWith(kind int) (string, bool) {
	switch kind {
	case 0:
		return `{"other":1}`, false // field absent
	case 1:
		return `{"f":null,"other":1}`, false
	case 2:
		return `{"f":123456789012345678901234567890,"other":1}`, false // huge number
	case 3:
		return `{"f":true,"other":1}`, false
	case 4:
		return `{"f":"","other":1}`, false
	case 5:
		return `{"f":{"k":"v","n":{"d":1}},"other":1}`, false
	case 6:
		return `{"f":[1,"a",{"x":null}],"other":1}`, false
	case 7:
		return `{"f":"plain text","other":1}`, false
	default:
		return `{"f":"xx","other":1}`, true // string with symbolic content
	}
}

// verifEvent builds the event; for the symbolic kind the string bytes are arbitrary (incl. invalid UTF-8)
func verifEvent(kind int, symLen int) *pipeline.Event {
	doc, sym := verifDocWith(kind)
	root := insaneJSON.Spawn()
	if err := root.DecodeString(doc); err != nil {
		panic("verif: bad template")
	}
	if sym {
		b := vf.Bytes("content", symLen)
		root.Dig("f").MutateToString(string(b))
	}
	return &pipeline.Event{Root: root, Size: len(doc)}
}

// verifSurvives: a defined action result and an event that still encodes to something that parses
func verifSurvives(res pipeline.ActionResult, ev *pipeline.Event) {
	vf.Assert(res == pipeline.ActionPass || res == pipeline.ActionCollapse || res == pipeline.ActionDiscard ||
		res == pipeline.ActionHold || res == pipeline.ActionBreak, "defined-action-result")
	if res == pipeline.ActionPass || res == pipeline.ActionBreak {
		out := ev.Root.EncodeToString()
		chk := insaneJSON.Spawn()
		vf.Assert(chk.DecodeString(out) == nil, "event-still-valid-json")
		vf.Assert(verifStrictJSON([]byte(out)), "event-still-strictly-valid-json")
	}
}

// verifStrictJSON: RFC 8259 validity of one document (plain Go; the data it sees here is concrete).
func verifStrictJSON(b []byte) bool {
	i := 0
	ws := func() {
		for i < len(b) && (b[i] == ' ' || b[i] == '\t' || b[i] == '\n' || b[i] == '\r') {
			i++
		}
	}
	var value func(depth int) bool
	str := func() bool {
		if i >= len(b) || b[i] != '"' {
			return false
		}
		i++
		for i < len(b) {
			c := b[i]
			switch {
			case c == '"':
				i++
				return true
			case c < 0x20:
				return false
			case c == '\\':
				if i+1 >= len(b) {
					return false
				}
				e := b[i+1]
				if e == 'u' {
					if i+5 >= len(b) {
						return false
					}
					for k := 2; k < 6; k++ {
						h := b[i+k]
						if !(h >= '0' && h <= '9' || h >= 'a' && h <= 'f' || h >= 'A' && h <= 'F') {
							return false
						}
					}
					i += 6
				} else if e == '"' || e == '\\' || e == '/' || e == 'b' || e == 'f' || e == 'n' || e == 'r' || e == 't' {
					i += 2
				} else {
					return false
				}
			default:
				i++
			}
		}
		return false
	}
	value = func(depth int) bool {
		ws()
		if i >= len(b) || depth > 8 {
			return false
		}
		switch c := b[i]; {
		case c == '"':
			return str()
		case c == '{':
			i++
			ws()
			if i < len(b) && b[i] == '}' {
				i++
				return true
			}
			for {
				ws()
				if !str() {
					return false
				}
				ws()
				if i >= len(b) || b[i] != ':' {
					return false
				}
				i++
				if !value(depth + 1) {
					return false
				}
				ws()
				if i < len(b) && b[i] == ',' {
					i++
					continue
				}
				if i < len(b) && b[i] == '}' {
					i++
					return true
				}
				return false
			}
		case c == '[':
			i++
			ws()
			if i < len(b) && b[i] == ']' {
				i++
				return true
			}
			for {
				if !value(depth + 1) {
					return false
				}
				ws()
				if i < len(b) && b[i] == ',' {
					i++
					continue
				}
				if i < len(b) && b[i] == ']' {
					i++
					return true
				}
				return false
			}
		case c == '-' || c >= '0' && c <= '9':
			st := i
			if c == '-' {
				i++
			}
			for i < len(b) && (b[i] >= '0' && b[i] <= '9' || b[i] == '.' || b[i] == 'e' || b[i] == 'E' || b[i] == '+' || b[i] == '-') {
				i++
			}
			return i > st && b[i-1] >= '0' && b[i-1] <= '9'
		default:
			for _, lit := range []string{"true", "false", "null"} {
				if i+len(lit) <= len(b) && string(b[i:i+len(lit)]) == lit {
					i += len(lit)
					return true
				}
			}
			return false
		}
	}
	if !value(0) {
		return false
	}
	ws()
	return i == len(b)
}
