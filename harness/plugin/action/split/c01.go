package split

import (
	"github.com/ozontech/file.d/pipeline"

	vf "github.com/ozontech/file.d/zzverif"
)

// C01 / C02 / C05 / C19 with the real split action inside the integrated pipeline: records whose field is
// an array of objects become parents (committed once, never sent) and every object element reaches the
// output exactly once as an event of its own; everything else passes unchanged.
func VerifH_C01_pipelineRealSplit() {
	pipeline.VerifRealAction = func() (pipeline.ActionPlugin, pipeline.AnyConfig) {
		return &Plugin{}, &Config{Field_: []string{"items"}}
	}
	wantChildren := map[string]int{} // child id -> how often it has to reach the output
	gotChildren := map[string]int{}
	wantPlain := map[int64]bool{}
	pipeline.VerifRealDoc = func(i int, stream string) string {
		id := string(rune('0' + i))
		head := `{"stream":"` + stream + `"`
		switch vf.Choose("items", 5) {
		case 0:
			wantChildren[id+"a"], wantChildren[id+"b"] = 1, 1
			return head + `,"items":[{"i":"` + id + `a"},{"i":"` + id + `b"}]}`
		case 1:
			wantChildren[id+"a"] = 1
			return head + `,"items":[1,{"i":"` + id + `a"},"x"]}` // only the object elements become events
		case 2:
			wantPlain[int64(i)] = true
			return head + `,"items":[]}`
		case 3:
			wantPlain[int64(i)] = true
			return head + `,"items":"not an array"}`
		}
		wantPlain[int64(i)] = true
		return head + `}`
	}
	pipeline.VerifRealOut = func(e *pipeline.Event) {
		if e.IsChildKind() {
			gotChildren[string(append([]byte(nil), e.Root.Dig("i").AsString()...))]++ // AsString aliases the event's buffer: copy
			return
		}
		vf.Assert(wantPlain[e.Offset], "only-events-that-were-not-split-are-sent-themselves")
	}
	pipeline.VerifRealIdle = func() {
		for id, n := range wantChildren {
			vf.Assert(gotChildren[id] == n, "every-object-element-reaches-the-output-exactly-once")
		}
		for id := range gotChildren {
			vf.Assert(wantChildren[id] == 1, "no-event-from-nowhere")
		}
		if len(wantChildren) > 0 {
			vf.Reach("split-event")
		}
	}
	pipeline.VerifH_C01_pipeline()
}
