package throttle

import (
	"context"
	"sync"
	"time"

	"github.com/ozontech/file.d/metric"
	"github.com/ozontech/file.d/pipeline"
	insaneJSON "github.com/ozontech/insane-json"
	"github.com/prometheus/client_golang/prometheus"

	vf "github.com/ozontech/file.d/zzverif"
)

// metrics: nil under the engine (no-op stubs), real ones natively
func verifDistrMetrics() *limitDistributionMetrics {
	if vf.Symbolic() {
		return &limitDistributionMetrics{}
	}
	ctl := metric.NewCtl("verif", prometheus.NewRegistry(), time.Minute, 0)
	return &limitDistributionMetrics{
		EventsCount: ctl.RegisterCounterVec("verif_events_count", "", "distribution_value"),
		EventsSize:  ctl.RegisterCounterVec("verif_events_size", "", "distribution_value"),
	}
}

// throttle keys of the limiters map harness: long (file paths, "namespace/pod/container"), equal in their
// first 70 bytes, different afterwards
const (
	verifKeyA = "0123456789012345678901234567890123456789012345678901234567890123456789/a"
	verifKeyB = "0123456789012345678901234567890123456789012345678901234567890123456789/b"
)

const verifIval = time.Second

var verifBase = time.Unix(1700000000, 0)

func verifBucketTime(id int) time.Time { return verifBase.Add(time.Duration(id) * verifIval) }

// C16.H1: in-memory limiter without distribution, against a ghost "seen per bucket id" model.
func VerifH_C16_limiterSeq() {
	K := vf.Param("K", 3)
	count := 1 + vf.Choose("buckets", 3)
	sizeKind := vf.Choose("kind", 2) == 1
	limit := int64(vf.Int("limit", 0, 4))
	twin := vf.Param("twin", 0) == 1
	kind := limitKindCount
	if sizeKind {
		kind = limitKindSize
	}
	nowID := 0
	lim := newInMemoryLimiter(&limiterConfig{bucketsCount: count, bucketInterval: verifIval},
		&complexLimit{value: limit, kind: kind}, &limitDistributionMetrics{}, func() time.Time { return verifBucketTime(nowID) })

	seen := map[int]int64{}   // everything booked on a bucket id
	passed := map[int]int64{} // what was let through
	curMax := 0
	for i := 0; i < K; i++ {
		if i > 0 {
			nowID += []int{0, 1, 2, 5}[vf.Choose("advance", 4)] // wall clock: non-decreasing, may jump past the whole ring
		}
		evID := nowID + []int{-2, -1, 0, 1}[vf.Choose("event-offset", 4)]
		w := int64(1)
		ev := &pipeline.Event{Size: 1}
		if sizeKind {
			ev.Size = vf.Int("size", 1, 3)
			w = int64(ev.Size)
		}
		allowed := lim.isAllowed(ev, verifBucketTime(evID))

		// reference mapping of the event time to a bucket id
		if i == 0 || nowID > curMax {
			curMax = nowID
		}
		minID := curMax - count + 1
		id := evID
		if id < minID || id > curMax {
			id = curMax // outside the retained window: counts against the newest bucket
			vf.Reach("outside-window")
		}
		want := seen[id]+w <= limit
		seen[id] += w
		if twin {
			vf.Assert(allowed == !want, "allowed-iff-bucket-within-limit")
			continue
		}
		vf.Assert(allowed == want, "allowed-iff-bucket-within-limit")
		if allowed {
			passed[id] += w
			vf.Assert(passed[id] <= limit, "passed-per-bucket-within-limit")
		} else {
			vf.Reach("rejected")
		}
	}
}

func verifEvent(json string, size int) *pipeline.Event {
	root := insaneJSON.Spawn()
	if err := root.DecodeString(json); err != nil {
		panic("verif: bad json " + json)
	}
	return &pipeline.Event{Root: root, Size: size}
}

// C16.H2: limit distribution (listed value "a" with ratio 0.5, the rest is the default share), size kind.
func VerifH_C16_distribution() {
	K := vf.Param("K", 4)
	total := int64(4 + 2*vf.Choose("total", 2)) // 4 or 6
	ld, err := parseLimitDistribution(limitDistributionCfg{Field: "level", Enabled: true,
		Ratios: []limitDistributionRatio{{Ratio: 0.5, Values: []string{"a"}}}}, total)
	if err != nil {
		vf.Fail("distribution-config")
		return
	}
	sizeKind := vf.Choose("kind", 2) == 1
	kind := limitKindCount
	if sizeKind {
		kind = limitKindSize
	}
	lim := newInMemoryLimiter(&limiterConfig{bucketsCount: 1, bucketInterval: verifIval},
		&complexLimit{value: total, kind: kind, distributions: ld}, verifDistrMetrics(), func() time.Time { return verifBucketTime(0) })
	limA, limDef := total/2, total-total/2
	seen := []int64{0, 0} // slot 0: default share, slot 1: value "a"
	passed := []int64{0, 0}
	for i := 0; i < K; i++ {
		isA := vf.Choose("value", 2) == 1
		size := 1
		if sizeKind {
			size = 1 + vf.Choose("size", 3)
		}
		w := int64(size)
		js := `{"level":"x"}`
		if isA {
			js = `{"level":"a"}`
		}
		allowed := lim.isAllowed(verifEvent(js, size), verifBucketTime(0))
		slot, lm := 0, limDef
		if isA {
			slot, lm = 1, limA
		} else if seen[0]+w > limDef {
			// default share exhausted: may use the listed share only when the event fits there
			if limA-(seen[1]+w) > -1 {
				slot, lm = 1, limA
				vf.Reach("stolen-from-listed-share")
			}
		}
		want := seen[slot]+w <= lm
		seen[slot] += w
		if vf.Param("twin", 0) == 1 {
			vf.Assert(allowed == !want, "distribution-decision")
			continue
		}
		vf.Assert(allowed == want, "distribution-decision")
		if allowed {
			passed[slot] += w
		}
		vf.Assert(passed[1] <= limA, "listed-value-within-its-share")
		vf.Assert(passed[0]+passed[1] <= limA+limDef, "total-within-sum-of-shares")
	}
}

// C16.H3: rules with several conditions match exactly the events carrying all their values.
func VerifH_C16_rules() {
	// conditions inserted in non-sorted key order
	cond := map[string]string{}
	cond["z"] = "1"
	cond["m"] = "2"
	cond["a"] = "3"
	// a condition with the empty value is how "events that carry no such field" are selected today
	// (an absent field reads as the empty string), e.g. {k8s_container: ""}
	cond["e"] = ""
	r := newRule(cond, complexLimit{value: 1, kind: limitKindCount}, 0)
	vals := []string{"1", "2", "3", "9"}
	vz, vm, va := vals[vf.Choose("z", 4)], vals[vf.Choose("m", 4)], vals[vf.Choose("a", 4)]
	doc := `{"z":"` + vz + `","m":"` + vm + `","a":"` + va + `"`
	eKind := vf.Choose("e", 3) // absent, present and empty, present with a value
	switch eKind {
	case 1:
		doc += `,"e":""`
	case 2:
		doc += `,"e":"x"`
	}
	ev := verifEvent(doc+`}`, 1)
	want := vz == "1" && vm == "2" && va == "3" && eKind != 2
	if vf.Param("twin", 0) == 1 {
		want = !want
	}
	var got bool
	// the rules are shared by the processors without a lock: matching must not write to a rule
	writes := vf.SharedWrites(r, func() { got = r.isMatch(ev) })
	vf.Assert(writes == 0, "matching-does-not-write-to-the-shared-rule")
	vf.Assert(got == want, "rule-matches-iff-all-conditions-hold")
	if want {
		vf.Reach("rule-matched")
	}
}

// C16.H4: the map of limiters: keys never share a budget, a key in use keeps its counters while the
// real maintenance loop (1 s ticker, expiration 3.5 s) runs, and two processors asking for the same
// new key at once get the same limiter.
func VerifH_C16_limitersMap() {
	K := vf.Param("K", 4)
	limit := int64(1 + vf.Choose("limit", 2))
	frozen := verifBucketTime(0)
	l := &limitersMap{
		lims: map[string]*limiterWithGen{}, mu: &sync.RWMutex{},
		curGen: time.Now().UnixMicro(), limitersExp: (3500 * time.Millisecond).Microseconds(),
		nowFn:             func() time.Time { return frozen }, // one long bucket
		limiterCfg:        &limiterConfig{backend: inMemoryBackend, bucketsCount: 1, bucketInterval: time.Hour},
		limitDistrMetrics: &limitDistributionMetrics{},
	}
	rl := newRule(map[string]string{}, complexLimit{value: limit, kind: limitKindCount}, 0)
	go l.maintenance(context.Background())

	passed := map[string]int64{}
	seen := map[string]int64{}
	one := func(key string) {
		lim, _ := l.getOrAdd(key, "", nil, rl)
		allowed := lim.isAllowed(&pipeline.Event{Size: 1}, frozen)
		vf.Atomic(func() {
			seen[key]++
			if allowed {
				passed[key]++
			}
			if vf.Param("twin", 0) == 1 {
				vf.Assert(passed[key] > limit, "passed-per-key-within-limit")
				return
			}
			vf.Assert(passed[key] <= limit, "passed-per-key-within-limit")
			// sequential callers get an exact answer; concurrent ones are checked by the bound above
			if seen[key] <= limit {
				vf.Assert(allowed, "not-rejected-while-under-the-limit")
			}
		})
	}
	if vf.Choose("two-processors-start-together", 2) == 1 {
		done := 0
		for g := 0; g < 2; g++ {
			go func() { one(verifKeyA); done++ }()
		}
		vf.Quiesce(0)
		vf.Assert(done == 2, "both-processors-returned")
		vf.Reach("concurrent-first-use")
	}
	bFrom := vf.Choose("key-b-appears-in-round", K+1)
	for i := 0; i < K; i++ {
		// both keys stay in use: every 0.6 s, far below the expiration even when the scheduler is late
		one(verifKeyA)
		if i >= bFrom {
			one(verifKeyB)
		}
		time.Sleep(600 * time.Millisecond)
	}
	vf.Reach("sequence-done")
}

// C16.H5: limit distribution on a ring of two buckets while the clock advances and late events
// arrive: each bucket keeps its own counters per share.
func VerifH_C16_distributionRing() {
	K := vf.Param("K", 4)
	total := int64(4)
	ld, err := parseLimitDistribution(limitDistributionCfg{Field: "level", Enabled: true,
		Ratios: []limitDistributionRatio{{Ratio: 0.5, Values: []string{"a"}}}}, total)
	if err != nil {
		vf.Fail("distribution-config")
		return
	}
	const count = 2
	nowID := 0
	lim := newInMemoryLimiter(&limiterConfig{bucketsCount: count, bucketInterval: verifIval},
		&complexLimit{value: total, kind: limitKindCount, distributions: ld}, verifDistrMetrics(), func() time.Time { return verifBucketTime(nowID) })
	limA := total / 2
	seenA := map[int]int64{} // events with the listed value booked per bucket id
	curMax := 0
	for i := 0; i < K; i++ {
		if i > 0 {
			nowID += vf.Choose("advance", 2)
		}
		evID := nowID - vf.Choose("late-by", 2)
		allowed := lim.isAllowed(verifEvent(`{"level":"a"}`, 1), verifBucketTime(evID))
		if i == 0 || nowID > curMax {
			curMax = nowID
		}
		id := evID
		if id < curMax-count+1 || id > curMax {
			id = curMax
		}
		want := seenA[id]+1 <= limA
		seenA[id]++
		if vf.Param("twin", 0) == 1 {
			vf.Assert(allowed == !want, "listed-value-share-per-bucket")
			continue
		}
		vf.Assert(allowed == want, "listed-value-share-per-bucket")
		if !allowed {
			vf.Reach("share-exhausted")
		}
		if evID < nowID && id == evID {
			vf.Reach("late-event-in-retained-bucket")
		}
	}
}

// C16.H6: the plugin as configured: Start builds the rule list (rule limits, rule-level limit
// distribution, default rule) and Do routes every event to the limiter of its first matching rule and
// its own key: budgets of different rules / keys are separate and each is the configured one.
func VerifH_C16_pluginRules() {
	K := vf.Param("K", 5)
	ruleLimit := int64(1 + vf.Choose("rule-limit", 2))
	defLimit := int64(2 + vf.Choose("default-limit", 2)*3) // 2 or 5: different from the rule's limit
	withDistr := vf.Choose("rule-distribution", 2) == 1
	rc := RuleConfig{Limit: ruleLimit, LimitKind: limitKindCount, Conditions: map[string]string{"level": "error"}}
	wantShare := ruleLimit
	if withDistr {
		// the listed value gets half of the RULE's limit (rule limit 2: share 1)
		rc.Limit, ruleLimit = 2, 2
		rc.LimitDistribution = LimitDistributionConfig{Field: "svc", Ratios: []ComplexRatio{{Ratio: 0.5, Values: []string{"pay"}}}}
		wantShare = 1
	}
	c := &Config{ThrottleField: "pod", ThrottleField_: []string{"pod"}, DefaultLimit: defLimit, LimitKind: limitKindCount,
		LimiterBackend: inMemoryBackend, BucketsCount: 1, BucketInterval_: time.Hour, LimiterExpiration_: time.Hour,
		Rules: []RuleConfig{rc}}
	params := &pipeline.ActionPluginParams{PluginDefaultParams: pipeline.PluginDefaultParams{PipelineName: "verif", PipelineSettings: &pipeline.Settings{}}}
	limitersMu.Lock()
	delete(limiters, "verif")
	limitersMu.Unlock()
	p := &Plugin{}
	p.Start(c, params)
	defer p.Stop()

	type budget struct{ rule, key string }
	seen := map[budget]int64{}
	for i := 0; i < K; i++ {
		isErr := vf.Choose("level", 2) == 1
		pod := []string{"p1", "p2"}[vf.Choose("pod", 2)]
		level, rule, limit := "info", "default", defLimit
		if isErr {
			level, rule, limit = "error", "rule0", wantShare
		}
		js := `{"level":"` + level + `","pod":"` + pod + `","svc":"pay"}`
		res := p.Do(verifEvent(js, 1))
		b := budget{rule, pod}
		seen[b]++
		want := seen[b] <= limit
		if vf.Param("twin", 0) == 1 {
			vf.Assert((res == pipeline.ActionPass) != want, "event-judged-by-its-own-rule-and-key")
			continue
		}
		vf.Assert((res == pipeline.ActionPass) == want, "event-judged-by-its-own-rule-and-key")
		if !want {
			vf.Reach("throttled")
		}
	}
}

// C16.H1b: bucket intervals that are not a whole number of seconds: within one interval of wall-clock time
// a key gets one budget, and the next interval starts a fresh one.
func VerifH_C16_bucketIntervals() {
	ivals := []time.Duration{100 * time.Millisecond, time.Second, 1500 * time.Millisecond, 2500 * time.Millisecond, time.Minute, 90 * time.Second}
	ival := ivals[vf.Choose("bucket-interval", len(ivals))]
	limit := int64(1 + vf.Choose("limit", 2))
	base := time.Unix(0, (int64(1700000000)*int64(time.Second)/int64(ival))*int64(ival)) // aligned to the interval
	now := base
	lim := newInMemoryLimiter(&limiterConfig{bucketsCount: 2, bucketInterval: ival},
		&complexLimit{value: limit, kind: limitKindCount}, &limitDistributionMetrics{}, func() time.Time { return now })
	offs := []time.Duration{0, ival / 3, ival / 2, 2 * ival / 3, ival - time.Nanosecond, ival, ival + ival/2}
	seen := map[int]int64{}
	last := 0
	for i := 0; i < vf.Param("K", 4); i++ {
		k := last + vf.Choose("later", len(offs)-last) // non-decreasing times
		last = k
		now = base.Add(offs[k])
		id := 0
		if offs[k] >= ival {
			id = 1
		}
		allowed := lim.isAllowed(&pipeline.Event{Size: 1}, now)
		want := seen[id]+1 <= limit
		seen[id]++
		if vf.Param("twin", 0) == 1 {
			vf.Assert(allowed != want, "one-budget-per-bucket-interval")
			continue
		}
		vf.Assert(allowed == want, "one-budget-per-bucket-interval")
	}
	if seen[1] > 0 {
		vf.Reach("next-interval")
	}
}
