package throttle

import (
	"time"

	"github.com/ozontech/file.d/metric"
	"github.com/ozontech/file.d/pipeline"
	insaneJSON "github.com/ozontech/insane-json"
	"github.com/prometheus/client_golang/prometheus"

	vf "github.com/ozontech/file.d/zzverif"
)

// metrics: nil under the engine (no-op stubs), real ones natively
func verifDistrMetrics() *limitDistributionMetrics {
	if vf.Symbolic() {
		return &limitDistributionMetrics{}
	}
	ctl := metric.NewCtl("verif", prometheus.NewRegistry(), time.Minute, 0)
	return &limitDistributionMetrics{
		EventsCount: ctl.RegisterCounterVec("verif_events_count", "", "distribution_value"),
		EventsSize:  ctl.RegisterCounterVec("verif_events_size", "", "distribution_value"),
	}
}

const verifIval = time.Second

var verifBase = time.Unix(1700000000, 0)

func verifBucketTime(id int) time.Time { return verifBase.Add(time.Duration(id) * verifIval) }

// C16.H1: in-memory limiter without distribution, against a ghost "seen per bucket id" model.
func VerifH_C16_limiterSeq() {
	K := vf.Param("K", 3)
	count := 1 + vf.Choose("buckets", 3)
	sizeKind := vf.Choose("kind", 2) == 1
	limit := int64(vf.Int("limit", 0, 4))
	twin := vf.Param("twin", 0) == 1
	kind := limitKindCount
	if sizeKind {
		kind = limitKindSize
	}
	nowID := 0
	lim := newInMemoryLimiter(&limiterConfig{bucketsCount: count, bucketInterval: verifIval},
		&complexLimit{value: limit, kind: kind}, &limitDistributionMetrics{}, func() time.Time { return verifBucketTime(nowID) })

	seen := map[int]int64{}   // everything booked on a bucket id
	passed := map[int]int64{} // what was let through
	curMax := 0
	for i := 0; i < K; i++ {
		if i > 0 {
			nowID += []int{0, 1, 2, 5}[vf.Choose("advance", 4)] // wall clock: non-decreasing, may jump past the whole ring
		}
		evID := nowID + []int{-2, -1, 0, 1}[vf.Choose("event-offset", 4)]
		w := int64(1)
		ev := &pipeline.Event{Size: 1}
		if sizeKind {
			ev.Size = vf.Int("size", 1, 3)
			w = int64(ev.Size)
		}
		allowed := lim.isAllowed(ev, verifBucketTime(evID))

		// reference mapping of the event time to a bucket id
		if i == 0 || nowID > curMax {
			curMax = nowID
		}
		minID := curMax - count + 1
		id := evID
		if id < minID || id > curMax {
			id = curMax // outside the retained window: counts against the newest bucket
			vf.Reach("outside-window")
		}
		want := seen[id]+w <= limit
		seen[id] += w
		if twin {
			vf.Assert(allowed == !want, "allowed-iff-bucket-within-limit")
			continue
		}
		vf.Assert(allowed == want, "allowed-iff-bucket-within-limit")
		if allowed {
			passed[id] += w
			vf.Assert(passed[id] <= limit, "passed-per-bucket-within-limit")
		} else {
			vf.Reach("rejected")
		}
	}
}

func verifEvent(json string, size int) *pipeline.Event {
	root := insaneJSON.Spawn()
	if err := root.DecodeString(json); err != nil {
		panic("verif: bad json " + json)
	}
	return &pipeline.Event{Root: root, Size: size}
}

// C16.H2: limit distribution (listed value "a" with ratio 0.5, the rest is the default share), size kind.
func VerifH_C16_distribution() {
	K := vf.Param("K", 4)
	total := int64(4 + 2*vf.Choose("total", 2)) // 4 or 6
	ld, err := parseLimitDistribution(limitDistributionCfg{Field: "level", Enabled: true,
		Ratios: []limitDistributionRatio{{Ratio: 0.5, Values: []string{"a"}}}}, total)
	if err != nil {
		vf.Fail("distribution-config")
		return
	}
	sizeKind := vf.Choose("kind", 2) == 1
	kind := limitKindCount
	if sizeKind {
		kind = limitKindSize
	}
	lim := newInMemoryLimiter(&limiterConfig{bucketsCount: 1, bucketInterval: verifIval},
		&complexLimit{value: total, kind: kind, distributions: ld}, verifDistrMetrics(), func() time.Time { return verifBucketTime(0) })
	limA, limDef := total/2, total-total/2
	seen := []int64{0, 0} // slot 0: default share, slot 1: value "a"
	passed := []int64{0, 0}
	for i := 0; i < K; i++ {
		isA := vf.Choose("value", 2) == 1
		size := 1
		if sizeKind {
			size = 1 + vf.Choose("size", 3)
		}
		w := int64(size)
		js := `{"level":"x"}`
		if isA {
			js = `{"level":"a"}`
		}
		allowed := lim.isAllowed(verifEvent(js, size), verifBucketTime(0))
		slot, lm := 0, limDef
		if isA {
			slot, lm = 1, limA
		} else if seen[0]+w > limDef {
			// default share exhausted: may use the listed share only when the event fits there
			if limA-(seen[1]+w) > -1 {
				slot, lm = 1, limA
				vf.Reach("stolen-from-listed-share")
			}
		}
		want := seen[slot]+w <= lm
		seen[slot] += w
		if vf.Param("twin", 0) == 1 {
			vf.Assert(allowed == !want, "distribution-decision")
			continue
		}
		vf.Assert(allowed == want, "distribution-decision")
		if allowed {
			passed[slot] += w
		}
		vf.Assert(passed[1] <= limA, "listed-value-within-its-share")
		vf.Assert(passed[0]+passed[1] <= limA+limDef, "total-within-sum-of-shares")
	}
}

// C16.H3: rules with several conditions match exactly the events carrying all their values.
func VerifH_C16_rules() {
	// conditions inserted in non-sorted key order
	cond := map[string]string{}
	cond["z"] = "1"
	cond["m"] = "2"
	cond["a"] = "3"
	r := newRule(cond, complexLimit{value: 1, kind: limitKindCount}, 0)
	vals := []string{"1", "2", "3", "9"}
	vz, vm, va := vals[vf.Choose("z", 4)], vals[vf.Choose("m", 4)], vals[vf.Choose("a", 4)]
	ev := verifEvent(`{"z":"`+vz+`","m":"`+vm+`","a":"`+va+`"}`, 1)
	want := vz == "1" && vm == "2" && va == "3"
	if vf.Param("twin", 0) == 1 {
		want = !want
	}
	vf.Assert(r.isMatch(ev) == want, "rule-matches-iff-all-conditions-hold")
	if want {
		vf.Reach("rule-matched")
	}
}
