package keep_fields

import (
	"github.com/ozontech/file.d/pipeline"
	insaneJSON "github.com/ozontech/insane-json"
	"go.uber.org/zap"

	vf "github.com/ozontech/file.d/zzverif"
)

// C18: keep_fields keeps exactly the configured values plus the objects on the way to them.
func VerifH_C18_keepFields() {
	docs := verifDocs()
	sels, paths := verifPick()
	p := &Plugin{}
	params := &pipeline.ActionPluginParams{}
	if !vf.Symbolic() {
		params.Logger = zap.NewNop().Sugar()
	}
	p.Start(&Config{Fields: sels}, params)
	// the same plugin instance handles a sequence of events (its delete buffers are reused)
	nev := 1 + vf.Choose("events", vf.Param("E", 2))
	for e := 0; e < nev; e++ {
		doc := verifDocs()[vf.Choose("doc", len(docs))]
		root := insaneJSON.Spawn()
		if err := root.DecodeString(doc.encode(false)); err != nil {
			vf.Fail("bad-doc")
			return
		}
		res := p.Do(&pipeline.Event{Root: root})
		vf.Assert(res == pipeline.ActionPass, "returns-pass")
		doc.keep(paths, 0)
		got := verifCanon(root.Node)
		vf.Observe("result", got)
		if vf.Param("twin", 0) == 1 {
			vf.Assert(got != doc.encode(true), "exactly-the-configured-paths-kept")
			continue
		}
		vf.Assert(got == doc.encode(true), "exactly-the-configured-paths-kept")
		vf.Assert(root.EncodeToString() == doc.encode(false), "survivors-keep-their-order")
		chk := insaneJSON.Spawn()
		vf.Assert(chk.DecodeString(root.EncodeToString()) == nil, "still-valid-json")
	}
	vf.Reach("checked")
}

// ---- shared reference model (copied into both harness packages) ----

type verifNode struct {
	scalar string // JSON text when not an object
	keys   []string
	kids   map[string]*verifNode
}

func verifObj(kv ...any) *verifNode {
	n := &verifNode{kids: map[string]*verifNode{}}
	for i := 0; i < len(kv); i += 2 {
		k := kv[i].(string)
		n.keys = append(n.keys, k)
		switch v := kv[i+1].(type) {
		case string:
			n.kids[k] = &verifNode{scalar: v}
		case *verifNode:
			n.kids[k] = v
		}
	}
	return n
}

func (n *verifNode) isObj() bool { return n.kids != nil }

func verifQuote(s string) string { return `"` + s + `"` }

// encode with the keys in the node's own order
func (n *verifNode) encode(sorted bool) string {
	if !n.isObj() {
		return n.scalar
	}
	keys := append([]string(nil), n.keys...)
	if sorted {
		for i := 1; i < len(keys); i++ {
			for j := i; j > 0 && keys[j] < keys[j-1]; j-- {
				keys[j], keys[j-1] = keys[j-1], keys[j]
			}
		}
	}
	out := "{"
	for i, k := range keys {
		if i > 0 {
			out += ","
		}
		out += verifQuote(k) + ":" + n.kids[k].encode(sorted)
	}
	return out + "}"
}

func (n *verifNode) del(k string) {
	delete(n.kids, k)
	for i, x := range n.keys {
		if x == k {
			n.keys = append(n.keys[:i:i], n.keys[i+1:]...)
			return
		}
	}
}

// remove: delete exactly the values at the given paths (paths through non-objects are ignored)
func (n *verifNode) remove(path []string) {
	cur := n
	for i, k := range path {
		if !cur.isObj() {
			return
		}
		kid, ok := cur.kids[k]
		if !ok {
			return
		}
		if i == len(path)-1 {
			cur.del(k)
			return
		}
		cur = kid
	}
}

// keep: keep exactly the values at the paths plus the objects on the way; returns whether anything was kept
func (n *verifNode) keep(paths [][]string, depth int) bool {
	if !n.isObj() {
		return false
	}
	preserve := false
	var drop []string
	for _, k := range n.keys {
		whole := false
		var sub [][]string
		for _, p := range paths {
			if len(p) > 0 && p[0] == k {
				if len(p) == 1 {
					whole = true
				} else {
					sub = append(sub, p[1:])
				}
			}
		}
		switch {
		case whole:
			preserve = true
		case len(sub) > 0 && n.kids[k].keep(sub, depth+1):
			preserve = true
		default:
			drop = append(drop, k)
		}
	}
	if depth == 0 || preserve {
		for _, k := range drop {
			n.del(k)
		}
	}
	return preserve
}

type verifSel struct {
	sel  string
	path []string
}

var verifSelectors = []verifSel{
	{"a", []string{"a"}}, {"b", []string{"b"}}, {"a.b", []string{"a", "b"}}, {`a\.b`, []string{"a.b"}},
	{"b.a", []string{"b", "a"}}, {"c", []string{"c"}}, {"a.b.c", []string{"a", "b", "c"}}, {"b.x", []string{"b", "x"}},
	{"a.z.y", []string{"a", "z", "y"}}, {"a.c", []string{"a", "c"}},
	{`a\.b.c`, []string{"a.b", "c"}}, {"a-x", []string{"a-x"}},
	{`a.\.h`, []string{"a", ".h"}},
	{"c ", []string{"c "}}, // a key that ends with a blank is a key of its own, not "c"
}

// event shapes: keys may contain dots; values are scalars, objects, arrays
func verifDocs() []*verifNode {
	return []*verifNode{
		verifObj("a", `1`, "b", `"s"`, "c", `true`, "c ", `"padded"`),
		verifObj("a", verifObj("b", `1`, "c", `2`), "b", verifObj("a", `3`, "x", `[1,2]`), "a.b", `"dotted"`),
		verifObj("a.b", `1`, "a", verifObj("b", verifObj("c", `7`, "d", `8`), "z", `null`), "c", `[{"a":1}]`, "b", `5`),
		verifObj("a", `"scalar"`, "b", verifObj("x", verifObj("a", `1`)), "k1", `1`, "k2", `2`, "k3", `3`),
		verifObj("a-x", `1`, "a.b", verifObj("c", `1`, "d", `2`), "a", verifObj("b", `3`, "c", `4`, "a.b", `5`, ".h", `6`)),
		verifWide(),
	}
}

// a wide object (more fields than the plugins' initial buffers hold) in front of a nested one
func verifWide() *verifNode {
	kv := []any{}
	for i := 0; i < 103; i++ {
		kv = append(kv, "j"+string(rune('0'+i/100))+string(rune('0'+i/10%10))+string(rune('0'+i%10)), `0`)
	}
	kv = append(kv, "a", verifObj("b", `1`, "y", `2`), "c", `3`)
	return verifObj(kv...)
}

// canonical (key-sorted) encoding of the real event tree
func verifCanon(n *insaneJSON.Node) string {
	if !n.IsObject() {
		return n.EncodeToString()
	}
	fields := n.AsFields()
	keys := make([]string, 0, len(fields))
	for _, f := range fields {
		keys = append(keys, f.AsString())
	}
	for i := 1; i < len(keys); i++ {
		for j := i; j > 0 && keys[j] < keys[j-1]; j-- {
			keys[j], keys[j-1] = keys[j-1], keys[j]
		}
	}
	out := "{"
	for i, k := range keys {
		if i > 0 {
			out += ","
		}
		out += verifQuote(k) + ":" + verifCanon(n.Dig(k))
	}
	return out + "}"
}

func verifPick() ([]string, [][]string) {
	S := vf.Param("S", 2)
	n := 1 + vf.Choose("selectors", S+1)
	var sels []string
	var paths [][]string
	if n == S+1 {
		// a parent, a sibling whose name sorts between the parent and its descendant, and the descendant
		return []string{"a", "a-x", "a.b"}, [][]string{{"a"}, {"a-x"}, {"a", "b"}}
	}
	for i := 0; i < n; i++ {
		s := verifSelectors[vf.Choose("selector", len(verifSelectors))]
		sels = append(sels, s.sel)
		paths = append(paths, s.path)
	}
	return sels, paths
}
