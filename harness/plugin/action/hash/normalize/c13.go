package normalize

import (
	vf "github.com/ozontech/file.d/zzverif"
)

// C13: the byte tokenizer of the hash action's normalizer (brackets and quotes, nested, repeated,
// escaped, cropped) on arbitrary field content: terminates, never indexes outside the data, and its
// tokens are well-formed (ordered, inside the data).
func VerifH_C13_hashTokenizer() {
	n := vf.Choose("len", vf.Param("N", 4)+1)
	data := make([]byte, n)
	alphabet := []byte{'{', '}', '[', ']', '(', ')', '"', '\'', '`', '\\', 'a'}
	for i := range data {
		data[i] = alphabet[vf.Choose("char", len(alphabet))]
	}
	patterns := pAll
	if vf.Choose("all-patterns", 2) == 0 {
		patterns = []int{pCurlyBracketed | pDoubleQuoted, pSquareBracketed | pSingleQuoted | pGraveQuoted, pParenthesized | pDoubleQuoted | pSingleQuoted}[vf.Choose("patterns", 3)]
	}
	tok := newTokenizer(patterns, data)
	prevEnd := 0
	steps := 0
	for t, end := tok.nextToken(); !end; t, end = tok.nextToken() {
		steps++
		if vf.Param("twin", 0) == 1 {
			vf.Assert(t.begin > t.end, "token-inside-the-data")
			return
		}
		vf.Assert(t.begin >= prevEnd && t.begin <= t.end && t.end <= len(data), "token-inside-the-data")
		vf.Assert(t.end > prevEnd || t.end == len(data), "tokenizer-makes-progress")
		if t.begin < prevEnd || t.end > len(data) || steps > len(data)+1 {
			vf.Fail("tokenizer-terminates")
			return
		}
		prevEnd = t.end
		vf.Reach("token-found")
	}
	// the whole normalisation by bytes (what Normalize does before the lexer)
	nz := &tokenNormalizer{builtinPatterns: patterns, normalizeByBytes: true}
	out := nz.Normalize(nil, data)
	vf.Assert(len(out) >= 0, "normalize-returns")
}
