package mask

import (
	"regexp"

	vf "github.com/ozontech/file.d/zzverif"
)

// shape of the regexp's two capture groups
const (
	verifShapeSiblings = iota // (a)x(b): both matched, disjoint, in order
	verifShapeNested          // (a(b)c): group 2 inside group 1
	verifShapeAlt             // (a)|(b): exactly one of them matched
	verifShapeOptional        // (a)?(b): group 1 may be absent
	verifShapes
)

var (
	verifValueLen int
	verifShape    int
	verifMatches  int
)

// replaces (*regexp.Regexp).FindAllSubmatchIndex: arbitrary match positions that satisfy what
// the regexp package guarantees for the chosen group shape
func verifStubFind(re *regexp.Regexp, b []byte, n int) [][]int {
	var out [][]int
	prevEnd := 0
	for k := 0; k < verifMatches; k++ {
		s0 := vf.Int("m-start", prevEnd, verifValueLen)
		e0 := vf.Int("m-end", s0, verifValueLen)
		s1 := vf.Int("g1-start", -1, verifValueLen)
		e1 := vf.Int("g1-end", -1, verifValueLen)
		s2 := vf.Int("g2-start", -1, verifValueLen)
		e2 := vf.Int("g2-end", -1, verifValueLen)
		in0 := func(s, e int) bool { return vf.And(vf.And(s0 <= s, s <= e), e <= e0) }
		none := func(s, e int) bool { return vf.And(s == -1, e == -1) }
		switch verifShape {
		case verifShapeSiblings:
			vf.Assume(vf.And(vf.And(in0(s1, e1), in0(s2, e2)), e1 <= s2))
		case verifShapeNested:
			vf.Assume(vf.And(in0(s1, e1), vf.And(vf.And(s1 <= s2, s2 <= e2), e2 <= e1)))
		case verifShapeAlt:
			vf.Assume(vf.Or(vf.And(in0(s1, e1), none(s2, e2)), vf.And(none(s1, e1), in0(s2, e2))))
		case verifShapeOptional:
			vf.Assume(vf.And(in0(s2, e2), vf.Or(none(s1, e1), vf.And(in0(s1, e1), e1 <= s2))))
		}
		out = append(out, []int{s0, e0, s1, e1, s2, e2})
		prevEnd = e0
	}
	return out
}

type verifRange struct{ s, e int }

// reference: the selected groups of every match, in position order, nested ones merged into the outer
func verifUnion(matches [][]int, groups []int) []verifRange {
	var out []verifRange
	for _, m := range matches {
		var rs []verifRange
		for _, g := range groups {
			s, e := m[2*g], m[2*g+1]
			if s < 0 || e < 0 {
				continue
			}
			rs = append(rs, verifRange{s, e})
		}
		// insertion sort by start (outer before inner on ties)
		for i := 1; i < len(rs); i++ {
			for j := i; j > 0 && (rs[j].s < rs[j-1].s || (rs[j].s == rs[j-1].s && rs[j].e > rs[j-1].e)); j-- {
				rs[j], rs[j-1] = rs[j-1], rs[j]
			}
		}
		for _, r := range rs {
			if n := len(out); n > 0 && r.s >= out[n-1].s && r.e <= out[n-1].e && r.s < out[n-1].e {
				continue // nested in (or equal to) the previous range
			}
			out = append(out, r)
		}
	}
	return out
}

func verifRewrite(m *Mask, value []byte, rs []verifRange) []byte {
	var out []byte
	prev := 0
	for _, r := range rs {
		out = append(out, value[prev:r.s]...)
		switch m.mode {
		case modeReplace:
			out = append(out, m.ReplaceWord...)
		case modeCut:
		default:
			n := r.e - r.s // ASCII: one asterisk per byte
			if m.MaxCount > 0 && n > m.MaxCount {
				n = m.MaxCount
			}
			for i := 0; i < n; i++ {
				out = append(out, '*')
			}
		}
		prev = r.e
	}
	return append(out, value[prev:]...)
}

var verifGroupSets = [][]int{{0}, {1}, {2}, {1, 2}, {2, 1}}

// C17.H1: maskValue rebuilds the value from the selected submatch ranges.
func VerifH_C17_maskValue() {
	n := vf.Param("N", 3)
	value := vf.Bytes("value", n)
	for _, c := range value {
		vf.Assume(c < 0x80) // ASCII: one character per byte (multi-byte text: see maskValueRunes)
	}
	verifValueLen = n
	verifShape = vf.Choose("shape", verifShapes)
	verifMatches = 1 + vf.Choose("matches", vf.Param("M", 2))
	groups := verifGroupSets[vf.Choose("groups", len(verifGroupSets))]
	m := &Mask{Groups: groups, Re_: regexp.MustCompile("(a)(b)")}
	switch vf.Choose("mode", 4) {
	case 0:
		m.mode = modeMask
	case 1:
		m.mode = modeMask
		m.MaxCount = 1
	case 2:
		m.mode = modeReplace
		m.ReplaceWord = "#"
	case 3:
		m.mode = modeCut
		m.CutValues = true
	}
	before := append([]byte(nil), value...)
	var matches [][]int
	vf.Atomic(func() { matches = nil })
	out, applied := m.maskValue(value, nil)
	vf.Assert(vf.SameBytes(value, before), "input-unchanged")
	matches = verifLastMatches
	want := verifRewrite(m, before, verifUnion(matches, groups))
	if vf.Param("twin", 0) == 1 {
		vf.Assert(!applied, "applied-iff-matched")
		return
	}
	vf.Assert(applied, "applied-iff-matched")
	vf.Assert(vf.SameBytes(out, want), "rewritten-exactly-over-selected-groups")
	vf.Reach("masked")
}

var verifLastMatches [][]int

func verifStubFindRec(re *regexp.Regexp, b []byte, n int) [][]int {
	verifLastMatches = verifStubFind(re, b, n)
	// hand out a copy: the code under test may not rely on it, but must not be able to disturb the oracle
	out := make([][]int, len(verifLastMatches))
	for i := range out {
		out[i] = append([]int(nil), verifLastMatches[i]...)
	}
	return out
}

// ---- H2: tree traversal with process / ignore field lists ----

// stub for the traversal harness: a value "matches" (whole value = group 1) iff a symbolic bool says so
func verifStubFindWhole(re *regexp.Regexp, b []byte, n int) [][]int {
	m := vf.Bool("value-matches")
	verifAsked = append(verifAsked, verifAsk{string(b), m})
	if m {
		return [][]int{{0, len(b), 0, len(b)}}
	}
	return nil
}

type verifAsk struct {
	val     string
	matched bool
}

var verifAsked []verifAsk

// C17.H1b: one asterisk per CHARACTER (not per byte) up to max_count, for text mixing one-, two- and
// three-byte characters.
func VerifH_C17_maskRunes() {
	chars := []string{"a", "é", "я", "日"}
	n := 1 + vf.Choose("characters", vf.Param("N", 4))
	var src []byte
	for i := 0; i < n; i++ {
		src = append(src, chars[vf.Choose("char", len(chars))]...)
	}
	maxCount := vf.Choose("max-count", vf.Param("N", 4)+3) // 0 = unlimited
	m := &Mask{MaxCount: maxCount}
	m.mode = modeMask
	pre, post := []byte("<"), []byte(">")
	buf := append([]byte(nil), pre...)
	buf = m.maskSection(buf, src, 0, len(src))
	buf = append(buf, post...)
	want := n
	if maxCount > 0 && maxCount < n {
		want = maxCount
	}
	ok := len(buf) == want+2 && buf[0] == '<' && buf[len(buf)-1] == '>'
	for i := 1; ok && i <= want; i++ {
		ok = buf[i] == '*'
	}
	if vf.Param("twin", 0) == 1 {
		vf.Assert(!ok, "one-asterisk-per-character-up-to-max-count")
		return
	}
	vf.Assert(ok, "one-asterisk-per-character-up-to-max-count")
	if len(src) > n {
		vf.Reach("multi-byte-text")
	}
}
