package mask

import (
	"regexp"
	"time"

	"github.com/ozontech/file.d/metric"
	"github.com/ozontech/file.d/pipeline"
	insaneJSON "github.com/ozontech/insane-json"
	"github.com/prometheus/client_golang/prometheus"
	"go.uber.org/zap"

	vf "github.com/ozontech/file.d/zzverif"
)

func verifParams() *pipeline.ActionPluginParams {
	p := &pipeline.ActionPluginParams{PluginDefaultParams: pipeline.PluginDefaultParams{PipelineSettings: &pipeline.Settings{AvgEventSize: 16}}}
	if !vf.Symbolic() {
		p.Logger = zap.NewNop().Sugar()
		p.MetricCtl = metric.NewCtl("verif", prometheus.NewRegistry(), time.Minute, 0)
	}
	return p
}

type verifLeaf struct {
	path  string // dotted path of the leaf
	value string
}

// the event used by the traversal harness and its string leaves in document order
const verifDoc = `{"a":"s1","b":{"c":"s2","d":"s3"},"ids":["s4","s5","s6"],"n":7,"t":true}`

var verifLeaves = []verifLeaf{{"a", "s1"}, {"b.c", "s2"}, {"b.d", "s3"}, {"ids.0", "s4"}, {"ids.1", "s5"}, {"ids.2", "s6"}, {"n", "7"}}

type verifFieldCfg struct {
	name        string
	ignore      []string
	process     []string
	maskProcess []string
	eligible    []bool // per leaf of verifLeaves: may the mask be applied?
}

var verifFieldCfgs = []verifFieldCfg{
	{name: "no-lists", eligible: []bool{true, true, true, true, true, true, true}},
	{name: "ignore-a", ignore: []string{"a"}, eligible: []bool{false, true, true, true, true, true, true}},
	{name: "ignore-b", ignore: []string{"b"}, eligible: []bool{true, false, false, true, true, true, true}},
	{name: "ignore-ids.0", ignore: []string{"ids.0"}, eligible: []bool{true, true, true, false, true, true, true}},
	{name: "process-b.c", process: []string{"b.c"}, eligible: []bool{false, true, false, false, false, false, false}},
	{name: "process-a-ids", process: []string{"a", "ids"}, eligible: []bool{true, false, false, true, true, true, false}},
	{name: "process-ids-a", process: []string{"ids", "a"}, eligible: []bool{true, false, false, true, true, true, false}},
	{name: "mask-process-ids.1", maskProcess: []string{"ids.1"}, eligible: []bool{false, false, false, false, true, false, false}},
}

// C17.H2: Plugin.Do walks the event with the process/ignore field tree.
func VerifH_C17_traverse() {
	fc := verifFieldCfgs[vf.Choose("fields", len(verifFieldCfgs))]
	cfg := &Config{
		Masks:            []Mask{{Re: "(x)", Groups: []int{1}, ProcessFields: fc.maskProcess}},
		IgnoreFields:     fc.ignore,
		ProcessFields:    fc.process,
		MaskAppliedField: "masked",
		MaskAppliedValue: "yes",
	}
	p := &Plugin{}
	verifAsked = nil
	p.Start(cfg, verifParams())
	root := insaneJSON.Spawn()
	if err := root.DecodeString(verifDoc); err != nil {
		vf.Fail("bad-doc")
		return
	}
	ev := &pipeline.Event{Root: root}
	res := p.Do(ev)
	vf.Assert(res == pipeline.ActionPass, "returns-pass")
	// the stub was asked once per visited leaf, in document order: recompute the expectation
	got := root.EncodeToString()
	vf.Observe("encoded", got)
	verifCheckTraverse(fc, got)
}

func verifCheckTraverse(fc verifFieldCfg, got string) {
	twin := vf.Param("twin", 0) == 1
	stars := func(n int) string {
		out := ""
		for i := 0; i < n; i++ {
			out += "*"
		}
		return out
	}
	vals := make([]string, len(verifLeaves))
	anyMatched := false
	for i, lf := range verifLeaves {
		asked, matched := false, false
		for _, a := range verifAsked {
			if a.val == lf.value {
				asked, matched = true, a.matched
			}
		}
		if !twin {
			vf.Assert(asked == fc.eligible[i], "mask-consulted-exactly-for-processed-fields")
		}
		vals[i] = lf.value
		if asked && matched && fc.eligible[i] {
			vals[i] = stars(len(lf.value))
			anyMatched = true
		}
	}
	want := `{"a":"` + vals[0] + `","b":{"c":"` + vals[1] + `","d":"` + vals[2] + `"},"ids":["` + vals[3] + `","` + vals[4] + `","` + vals[5] + `"],"n":`
	if vals[6] == "7" {
		want += `7`
	} else {
		want += `"` + vals[6] + `"`
	}
	want += `,"t":true`
	if anyMatched != twin {
		want += `,"masked":"yes"`
		vf.Reach("applied-mark-set")
	}
	want += `}`
	vf.Assert(got == want, "only-processed-matching-values-change-and-mark-iff-matched")
}

// C17.H3: a value removed entirely by a cut-mode mask stays removed when a later mask runs.
func VerifH_C17_cutThenMask() {
	cfg := &Config{Masks: []Mask{{Re: "(x)", Groups: []int{1}, CutValues: true}, {Re: "(y)", Groups: []int{1}}}}
	p := &Plugin{}
	p.Start(cfg, verifParams())
	root := insaneJSON.Spawn()
	_ = root.DecodeString(`{"secret":"topsecret","other":"v"}`)
	ev := &pipeline.Event{Root: root}
	p.Do(ev)
	got := root.EncodeToString()
	vf.Observe("encoded", got)
	// the second mask may legitimately mask the other value (and the empty rest of the first one)
	ok := got == `{"secret":"","other":"v"}` || got == `{"secret":"","other":"*"}`
	if vf.Param("twin", 0) == 1 {
		vf.Assert(!ok, "cut-value-stays-cut")
		return
	}
	vf.Assert(ok, "cut-value-stays-cut")
	vf.Reach("cut-checked")
}

// stub for cutThenMask: the first mask ("(x)") matches the whole value "topsecret";
// the second mask ("(y)") matches or not (symbolic) whatever it is given
func verifStubFindCut(re *regexp.Regexp, b []byte, n int) [][]int {
	if re.String() == "(x)" {
		if string(b) == "topsecret" {
			return [][]int{{0, len(b), 0, len(b)}}
		}
		return nil
	}
	if vf.Bool("second-mask-matches") {
		return [][]int{{0, len(b), 0, len(b)}}
	}
	return nil
}
