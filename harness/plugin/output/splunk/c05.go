package splunk

import (
	"errors"
	"time"

	"github.com/ozontech/file.d/pipeline"
	"github.com/ozontech/file.d/xhttp"
	insaneJSON "github.com/ozontech/insane-json"
	"go.uber.org/zap"

	vf "github.com/ozontech/file.d/zzverif"
)

var verifSends int

// replaces (*xhttp.Client).DoTimeout: the endpoint is down
func verifStubDoFail(c *xhttp.Client, method, contentType string, body []byte, timeout time.Duration, process func([]byte) error) (int, error) {
	verifSends++
	return 0, errors.New("verif: connection refused")
}

type verifWCtl struct {
	commits map[*pipeline.Event]int
}

func (c *verifWCtl) Commit(e *pipeline.Event) { c.commits[e]++ }
func (c *verifWCtl) Error(string)             {}

// the dead queue: an output of its own; it finishes (commits) what it is given
type verifDeadQueue struct {
	ctl *verifWCtl
	got []*pipeline.Event
}

func (d *verifDeadQueue) Start(pipeline.AnyConfig, *pipeline.OutputPluginParams) {}
func (d *verifDeadQueue) Stop()                                                  {}
func (d *verifDeadQueue) Out(e *pipeline.Event) {
	d.got = append(d.got, e)
	d.ctl.Commit(e)
}

// C05 / C09: the splunk output as its Start wires it, endpoint answering every request with an error: an
// event handed to the dead queue after the retries is finished by the dead queue only; without a dead
// queue it is committed once by the main batcher.
func VerifH_C05_splunkStartWiring() {
	verifSends = 0
	ctl := &verifWCtl{commits: map[*pipeline.Event]int{}}
	router := pipeline.NewRouter()
	dq := &verifDeadQueue{ctl: ctl}
	withDQ := vf.Choose("dead-queue-configured", 2) == 1
	if withDQ {
		router.SetDeadQueueOutput(&pipeline.OutputPluginInfo{PluginStaticInfo: &pipeline.PluginStaticInfo{Type: "dq"}, PluginRuntimeInfo: &pipeline.PluginRuntimeInfo{Plugin: dq}})
	}
	cfg := &Config{Endpoint: "http://x:8088/services/collector", Token: "t", Retry: 1, Retention_: 10 * time.Millisecond, RetentionExponentMultiplier: 1,
		WorkersCount_: 1, BatchSize_: 1 + vf.Choose("batch-size", 2), BatchFlushTimeout_: 100 * time.Millisecond, RequestTimeout_: time.Second}
	params := &pipeline.OutputPluginParams{PluginDefaultParams: pipeline.PluginDefaultParams{PipelineName: "t", PipelineSettings: &pipeline.Settings{AvgEventSize: 16}},
		Controller: ctl, Router: router}
	if !vf.Symbolic() {
		params.Logger = zap.NewNop().Sugar()
	}
	p := &Plugin{}
	p.Start(cfg, params)
	n := 1 + vf.Choose("events", 2)
	events := make([]*pipeline.Event, n)
	for i := range events {
		root := insaneJSON.Spawn()
		_ = root.DecodeString(`{"k":1}`)
		events[i] = &pipeline.Event{Root: root, Size: 7, SeqID: uint64(i + 1)}
		p.Out(events[i])
	}
	vf.Quiesce(2000)
	for _, e := range events {
		if vf.Param("twin", 0) == 1 {
			vf.Assert(ctl.commits[e] != 1, "event-finished-exactly-once")
			continue
		}
		vf.Assert(ctl.commits[e] == 1, "event-finished-exactly-once")
	}
	if withDQ {
		vf.Assert(len(dq.got) == n, "failed-events-went-to-the-dead-queue")
		vf.Reach("dead-queue-used")
	}
	vf.Assert(verifSends >= 2, "send-was-retried")
	p.Stop()
}
