package splunk

import (
	"time"

	"github.com/ozontech/file.d/pipeline"
	"github.com/ozontech/file.d/xhttp"
	insaneJSON "github.com/ozontech/insane-json"

	vf "github.com/ozontech/file.d/zzverif"
)

var verifBodies [][]byte

func verifStubDo(c *xhttp.Client, method, contentType string, body []byte, timeout time.Duration, process func([]byte) error) (int, error) {
	verifBodies = append(verifBodies, append([]byte(nil), body...))
	return 200, nil
}

// C19: splunk envelopes: one per deliverable event, built from that event only.
func VerifH_C19_splunkEnvelopes() {
	n := 1 + vf.Choose("events", vf.Param("K", 3))
	p := &Plugin{config: &Config{BatchSize_: 4}, avgEventSize: 16,
		copyFieldsPaths: []copyFieldPaths{{fromPath: []string{"ts"}, toPath: []string{"time"}}, {fromPath: []string{"svc"}, toPath: []string{"fields", "service"}},
			{fromPath: []string{"meta"}, toPath: []string{"fields", "meta"}}}}
	var events []*pipeline.Event
	want := ""
	deliverable := 0
	for i := 0; i < n; i++ {
		id := string(rune('0' + i))
		hasTs := vf.Choose("has-ts", 2) == 1
		hasSvc := vf.Choose("has-svc", 2) == 1
		doc := `{"id":` + id
		if hasTs {
			doc += `,"ts":"t` + id + `"`
		}
		if hasSvc {
			doc += `,"svc":"s` + id + `"`
		}
		hasMeta := vf.Choose("has-nested-object", 2) == 1
		if hasMeta {
			doc += `,"meta":{"a":{"b":1},"c":[2]}`
		}
		doc += `}`
		root := insaneJSON.Spawn()
		_ = root.DecodeString(doc)
		ev := &pipeline.Event{Root: root, Size: len(doc)}
		if vf.Choose("parent", 3) == 2 {
			ev.SetChildParentKind()
		} else {
			deliverable++
			env := `{"event":` + doc
			if hasTs {
				env += `,"time":"t` + id + `"`
			}
			switch {
			case hasSvc && hasMeta:
				env += `,"fields":{"service":"s` + id + `","meta":{"a":{"b":1},"c":[2]}}`
			case hasSvc:
				env += `,"fields":{"service":"s` + id + `"}`
			case hasMeta:
				env += `,"fields":{"meta":{"a":{"b":1},"c":[2]}}`
			}
			want += env + `}`
		}
		events = append(events, ev)
	}
	verifBodies = nil
	batch := pipeline.NewPreparedBatch(events)
	var wd pipeline.WorkerData
	err := p.out(&wd, batch)
	vf.Assert(err == nil, "send-succeeds")
	if vf.Param("twin", 0) == 1 {
		vf.Assert(len(verifBodies) == 1 && string(verifBodies[0]) != want, "envelopes")
		return
	}
	vf.Assert(len(verifBodies) == 1 && string(verifBodies[0]) == want, "one-envelope-per-event-built-from-that-event-only")
	if deliverable >= 2 {
		vf.Reach("several-envelopes")
	}
}
