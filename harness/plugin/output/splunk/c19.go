package splunk

import (
	"errors"
	"time"

	"github.com/ozontech/file.d/pipeline"
	"github.com/ozontech/file.d/xhttp"
	insaneJSON "github.com/ozontech/insane-json"

	vf "github.com/ozontech/file.d/zzverif"
)

var verifBodies [][]byte

func verifStubDo(c *xhttp.Client, method, contentType string, body []byte, timeout time.Duration, process func([]byte) error) (int, error) {
	verifBodies = append(verifBodies, append([]byte(nil), body...))
	return 200, nil
}

// C19: splunk envelopes: one per deliverable event, built from that event only.
func VerifH_C19_splunkEnvelopes() {
	n := 1 + vf.Choose("events", vf.Param("K", 3))
	p := &Plugin{config: &Config{BatchSize_: 4}, avgEventSize: 16,
		copyFieldsPaths: []copyFieldPaths{{fromPath: []string{"ts"}, toPath: []string{"time"}}, {fromPath: []string{"svc"}, toPath: []string{"fields", "service"}},
			{fromPath: []string{"meta"}, toPath: []string{"fields", "meta"}}}}
	var events []*pipeline.Event
	want := ""
	deliverable := 0
	for i := 0; i < n; i++ {
		id := string(rune('0' + i))
		hasTs := vf.Choose("has-ts", 2) == 1
		hasSvc := vf.Choose("has-svc", 2) == 1
		doc := `{"id":` + id
		if hasTs {
			doc += `,"ts":"t` + id + `"`
		}
		if hasSvc {
			doc += `,"svc":"s` + id + `"`
		}
		hasMeta := vf.Choose("has-nested-object", 2) == 1
		if hasMeta {
			doc += `,"meta":{"a":{"b":1},"c":[2]}`
		}
		doc += `}`
		root := insaneJSON.Spawn()
		_ = root.DecodeString(doc)
		ev := &pipeline.Event{Root: root, Size: len(doc)}
		if vf.Choose("parent", 3) == 2 {
			ev.SetChildParentKind()
		} else {
			deliverable++
			env := `{"event":` + doc
			if hasTs {
				env += `,"time":"t` + id + `"`
			}
			switch {
			case hasSvc && hasMeta:
				env += `,"fields":{"service":"s` + id + `","meta":{"a":{"b":1},"c":[2]}}`
			case hasSvc:
				env += `,"fields":{"service":"s` + id + `"}`
			case hasMeta:
				env += `,"fields":{"meta":{"a":{"b":1},"c":[2]}}`
			}
			want += env + `}`
		}
		events = append(events, ev)
	}
	verifBodies = nil
	batch := pipeline.NewPreparedBatch(events)
	var wd pipeline.WorkerData
	err := p.out(&wd, batch)
	vf.Assert(err == nil, "send-succeeds")
	if vf.Param("twin", 0) == 1 {
		vf.Assert(len(verifBodies) == 1 && string(verifBodies[0]) != want, "envelopes")
		return
	}
	vf.Assert(len(verifBodies) == 1 && string(verifBodies[0]) == want, "one-envelope-per-event-built-from-that-event-only")
	if deliverable >= 2 {
		vf.Reach("several-envelopes")
	}
}

var (
	verifRespCode int
	verifRespBody string
)

// replaces (*xhttp.Client).DoTimeout as the real one behaves: a transport failure, a status outside 200..202
// (error, the body is not looked at) or an accepted status whose body goes to the response callback
func verifStubDoResp(c *xhttp.Client, method, contentType string, body []byte, timeout time.Duration, process func([]byte) error) (int, error) {
	verifBodies = append(verifBodies, append([]byte(nil), body...))
	if verifRespCode == 0 {
		return 0, errVerifResp
	}
	if verifRespCode < 200 || verifRespCode > 202 {
		return verifRespCode, errVerifResp
	}
	if process != nil {
		return verifRespCode, process([]byte(verifRespBody))
	}
	return verifRespCode, nil
}

var errVerifResp = errors.New("verif: bad response")

// C09 (sink side): the splunk output reports a batch as sent only when splunk answered 200..202 with
// {"code":0,...}, or when the request itself was malformed (400: documented as not retried); any other
// status, a non-zero splunk code, a body without code or a body that is not JSON is a failure for the retry logic.
func VerifH_C09_splunkAnswers() {
	codes := []int{200, 0, 400, 401, 403, 404, 429, 500, 503}
	verifRespCode = codes[vf.Choose("status", len(codes))]
	bodies := []string{`{"text":"Success","code":0}`, `{"text":"Invalid token","code":4}`, `{"text":"Server is busy","code":9}`, `{"text":"no code"}`, `not json`, ``, `{"code":"0"}`}
	bk := vf.Choose("body", len(bodies))
	verifRespBody = bodies[bk]
	p := &Plugin{config: &Config{BatchSize_: 4}, avgEventSize: 32, client: &xhttp.Client{}}
	root := insaneJSON.Spawn()
	_ = root.DecodeString(`{"k":"v"}`)
	verifBodies = nil
	var wd pipeline.WorkerData
	var err error
	batch := pipeline.NewPreparedBatch([]*pipeline.Event{{Root: root, Size: 9}})
	// several workers run out() on the one plugin object at once: whatever it writes must be per worker (WorkerData)
	writes := vf.SharedWrites(p, func() { err = p.out(&wd, batch) })
	vf.Assert(writes == 0, "out-does-not-write-to-the-plugin-shared-by-the-workers")
	accepted := verifRespCode == 200 && (bk == 0 || bk == 6)
	done := accepted || verifRespCode == 400
	if vf.Param("twin", 0) == 1 {
		vf.Assert((err == nil) != done, "batch-reported-sent-only-when-splunk-took-it")
		return
	}
	vf.Assert((err == nil) == done, "batch-reported-sent-only-when-splunk-took-it")
	vf.Assert(len(verifBodies) == 1, "one-request-per-attempt")
	vf.Reach("answer-checked")
}
