package loki

import (
	"encoding/json"
	"errors"
	"time"

	"github.com/ozontech/file.d/pipeline"
	"github.com/ozontech/file.d/xhttp"
	insaneJSON "github.com/ozontech/insane-json"

	vf "github.com/ozontech/file.d/zzverif"
)

var (
	verifBodies   [][]byte
	verifFailures int
	errVerif500   = errors.New("verif: server error")
)

func verifStubDo(c *xhttp.Client, method, contentType string, body []byte, timeout time.Duration, process func([]byte) error) (int, error) {
	verifBodies = append(verifBodies, append([]byte(nil), body...))
	if verifFailures > 0 {
		verifFailures--
		return 500, errVerif500
	}
	return 204, nil
}

// replaces encoding/json.Marshal (reflection is not encoded): renders the one request type the plugin marshals
func verifStubMarshal(v any) ([]byte, error) {
	req, ok := v.(request)
	if !ok {
		return nil, errors.New("verif: unexpected type")
	}
	out := []byte(`{"streams":[`)
	for i, s := range req.Streams {
		if i > 0 {
			out = append(out, ',')
		}
		out = append(out, `{"stream":{},"values":[`...)
		for j, val := range s.Values {
			if j > 0 {
				out = append(out, ',')
			}
			out = append(out, '[')
			for k, x := range val {
				if k > 0 {
					out = append(out, ',')
				}
				switch y := x.(type) {
				case string:
					out = append(out, '"')
					out = append(out, y...) // harness values need no escaping
					out = append(out, '"')
				case json.RawMessage:
					out = append(out, y...)
				}
			}
			out = append(out, ']')
		}
		out = append(out, `]}`...)
	}
	return append(out, `]}`...), nil
}

// C19: loki push body: one [ts, line, rest] triple per deliverable event, built from that event only;
// the same body again when the push fails and the batch is sent a second time.
func VerifH_C19_lokiValues() {
	n := 1 + vf.Choose("events", vf.Param("K", 2))
	retry := vf.Choose("first-push-fails", 2) == 1
	p := &Plugin{config: &Config{BatchSize_: 4, MessageField: "message", TimestampField: "ts"}, avgEventSize: 32, labels: map[string]string{}}
	var events []*pipeline.Event
	want := `{"streams":[{"stream":{},"values":[`
	iterable := false
	first := true
	for i := 0; i < n; i++ {
		id := string(rune('0' + i))
		doc := `{"ts":"100` + id + `","message":"m` + id + `","k":"v` + id + `"}`
		badTs := vf.Choose("timestamp-not-unix-nano", 3) == 2
		if badTs {
			doc = `{"ts":"2024-01-01T00:00:00Z","message":"m` + id + `","k":"v` + id + `"}`
		}
		root := insaneJSON.Spawn()
		_ = root.DecodeString(doc)
		ev := &pipeline.Event{Root: root, Size: len(doc)}
		if vf.Choose("parent", 3) == 2 {
			ev.SetChildParentKind()
		} else if badTs {
			iterable = true // loki cannot take this one event; the others of the batch still have to go out
			vf.Reach("event-with-bad-timestamp")
		} else {
			iterable = true
			if !first {
				want += ","
			}
			first = false
			want += `["100` + id + `","m` + id + `",{"k":"v` + id + `"}]`
		}
		events = append(events, ev)
	}
	want += `]}]}`
	verifBodies, verifFailures = nil, 0
	if retry {
		verifFailures = 1
	}
	vf.Advance(int64(time.Hour)) // the timestamps above lie in the past
	batch := pipeline.NewPreparedBatch(events)
	pipeline.VerifBatchMarkIterable(batch, iterable)
	var wd pipeline.WorkerData
	err := p.out(&wd, batch)
	if retry {
		vf.Assert(err != nil, "failed-push-is-reported")
		err = p.out(&wd, batch) // what RetriableBatcher does
	}
	vf.Assert(err == nil, "push-succeeds")
	if len(verifBodies) == 0 {
		vf.Fail("batch-reported-done-without-a-push")
		return
	}
	last := string(verifBodies[len(verifBodies)-1])
	if vf.Param("twin", 0) == 1 {
		vf.Assert(last != want, "one-triple-per-event-built-from-that-event-only")
		return
	}
	if retry {
		vf.Assert(last == want, "resent-body-is-the-same-triples")
		vf.Reach("resent")
	} else {
		vf.Assert(last == want, "one-triple-per-event-built-from-that-event-only")
	}
}

var verifCode int

// replaces (*xhttp.Client).DoTimeout: answers with the status the harness picked
func verifStubDoCode(c *xhttp.Client, method, contentType string, body []byte, timeout time.Duration, process func([]byte) error) (int, error) {
	verifBodies = append(verifBodies, append([]byte(nil), body...))
	if verifCode == 0 {
		return 0, errVerif500 // no answer at all
	}
	if verifCode >= 300 {
		return verifCode, errVerif500
	}
	return verifCode, nil
}

// C09 (sink side of "a failed send is retried"): the loki output reports a push as done only when loki took
// it (204) or when the request itself is malformed (400: documented as not retried); every other answer -
// authentication, rate limiting, time-outs, server errors, no answer - is reported as a failure so that the
// batch is retried and, in the end, routed to the dead queue instead of being committed as sent.
func VerifH_C09_lokiStatusCodes() {
	codes := []int{204, 400, 0, 200, 401, 403, 404, 408, 413, 429, 500, 502, 503}
	verifCode = codes[vf.Choose("status", len(codes))]
	p := &Plugin{config: &Config{BatchSize_: 4, MessageField: "message", TimestampField: "ts"}, avgEventSize: 32, labels: map[string]string{}}
	root := insaneJSON.Spawn()
	_ = root.DecodeString(`{"ts":"1000","message":"m","k":"v"}`)
	verifBodies = nil
	vf.Advance(int64(time.Hour))
	batch := pipeline.NewPreparedBatch([]*pipeline.Event{{Root: root, Size: 30}})
	pipeline.VerifBatchMarkIterable(batch, true)
	var wd pipeline.WorkerData
	var err error
	// several workers run out() on the one plugin object at once: whatever it writes must be per worker (WorkerData)
	writes := vf.SharedWrites(p, func() { err = p.out(&wd, batch) })
	vf.Assert(writes == 0, "out-does-not-write-to-the-plugin-shared-by-the-workers")
	done := verifCode == 204 || verifCode == 400
	if vf.Param("twin", 0) == 1 {
		vf.Assert((err == nil) != done, "push-reported-done-only-for-204-or-400")
		return
	}
	vf.Assert((err == nil) == done, "push-reported-done-only-for-204-or-400")
	vf.Assert(len(verifBodies) == 1, "one-request-per-attempt")
	vf.Reach("status-checked")
}
