package kafka

import (
	"context"
	"errors"

	"github.com/ozontech/file.d/pipeline"
	insaneJSON "github.com/ozontech/insane-json"
	"github.com/twmb/franz-go/pkg/kgo"

	vf "github.com/ozontech/file.d/zzverif"
)

// recording client (KafkaClient is an interface: no function stub needed)
type verifClient struct {
	batches [][]verifRec
}

type verifRec struct {
	topic string
	value string
}

func (c *verifClient) ProduceSync(ctx context.Context, rs ...*kgo.Record) kgo.ProduceResults {
	var b []verifRec
	for _, r := range rs {
		b = append(b, verifRec{r.Topic, string(r.Value)}) // snapshot at send time, after all appends
	}
	c.batches = append(c.batches, b)
	return nil
}
func (c *verifClient) Close() {}

// C19: kafka output: one record per deliverable event; every record's value is that event's own
// encoding (the values are slices of one shared, growing buffer), across reused worker buffers.
func VerifH_C19_kafkaRecords() {
	cl := &verifClient{}
	p := &Plugin{config: &Config{BatchSize_: 3, DefaultTopic: "def", UseTopicField: true, TopicField: "topic"}, avgEventSize: vf.Param("AVG", 8), client: cl, ctx: context.Background()}
	var wd pipeline.WorkerData
	var want [][]verifRec
	id := 0
	for b := 0; b < 2; b++ {
		n := 1 + vf.Choose("events", vf.Param("K", 3))
		var evs []*pipeline.Event
		var w []verifRec
		for i := 0; i < n; i++ {
			variant := vf.Choose("event", 4) // short | long with topic | split parent | short with topic
			pad := ""
			if variant == 1 {
				pad = "xxxxxxxxxxxxxxxx"
			}
			doc := `{"id":` + string(rune('0'+id)) + `,"pad":"` + pad + `"`
			topic := "def"
			if variant == 1 || variant == 3 {
				doc += `,"topic":"t` + string(rune('0'+id)) + `"`
				topic = "t" + string(rune('0'+id))
			}
			doc += `}`
			id++
			root := insaneJSON.Spawn()
			_ = root.DecodeString(doc)
			ev := &pipeline.Event{Root: root, Size: len(doc)}
			if variant == 2 {
				ev.SetChildParentKind()
			} else {
				w = append(w, verifRec{topic, doc})
			}
			evs = append(evs, ev)
		}
		want = append(want, w)
		batch := pipeline.NewPreparedBatch(evs)
		err := p.out(&wd, batch)
		vf.Assert(err == nil, "send-succeeds")
	}
	if vf.Param("twin", 0) == 1 {
		vf.Assert(len(cl.batches) != 2, "one-produce-call-per-batch")
		return
	}
	vf.Assert(len(cl.batches) == 2, "one-produce-call-per-batch")
	for b := range want {
		if b >= len(cl.batches) {
			break
		}
		vf.Assert(len(cl.batches[b]) == len(want[b]), "one-record-per-deliverable-event")
		if len(cl.batches[b]) == len(want[b]) {
			for i := range want[b] {
				vf.Assert(cl.batches[b][i].value == want[b][i].value, "record-value-is-its-own-event")
				vf.Assert(cl.batches[b][i].topic == want[b][i].topic, "record-topic-from-its-own-event")
			}
		}
	}
	vf.Reach("produced")
}

// a client that rejects the records of one topic (its partition leader is unavailable) and takes the others
type verifPartialClient struct{ calls int }

var errVerifProduce = errors.New("verif: leader not available")

func (c *verifPartialClient) ProduceSync(ctx context.Context, rs ...*kgo.Record) kgo.ProduceResults {
	c.calls++
	var out kgo.ProduceResults
	for _, r := range rs {
		res := kgo.ProduceResult{Record: r}
		if r.Topic == "bad" {
			res.Err = errVerifProduce
		}
		out = append(out, res)
	}
	return out
}
func (c *verifPartialClient) Close() {}

// C09 (sink side): the kafka output reports a batch as sent only when every record of it was accepted; when
// the broker rejects some records (first, middle or last of the batch) out() reports the failure so that the
// batch is retried / routed instead of being committed as sent.
func VerifH_C09_kafkaPartialFailure() {
	cl := &verifPartialClient{}
	p := &Plugin{config: &Config{BatchSize_: 3, DefaultTopic: "def", UseTopicField: true, TopicField: "topic"}, avgEventSize: 16, client: cl, ctx: context.Background()}
	n := 1 + vf.Choose("events", 3)
	var evs []*pipeline.Event
	anyBad := false
	for i := 0; i < n; i++ {
		doc := `{"k":1}`
		if vf.Choose("rejected", 2) == 1 {
			doc = `{"k":1,"topic":"bad"}`
			anyBad = true
		}
		root := insaneJSON.Spawn()
		_ = root.DecodeString(doc)
		evs = append(evs, &pipeline.Event{Root: root, Size: len(doc)})
	}
	var wd pipeline.WorkerData
	err := p.out(&wd, pipeline.NewPreparedBatch(evs))
	if vf.Param("twin", 0) == 1 {
		vf.Assert((err == nil) == anyBad, "batch-reported-sent-only-when-every-record-was-accepted")
		return
	}
	vf.Assert((err == nil) == !anyBad, "batch-reported-sent-only-when-every-record-was-accepted")
	vf.Assert(cl.calls == 1, "one-produce-call-per-attempt")
	if anyBad {
		vf.Reach("partial-failure")
	}
}
