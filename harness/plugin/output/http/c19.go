package http

import (
	"errors"
	"sync"
	"time"

	"github.com/ozontech/file.d/pipeline"
	"github.com/ozontech/file.d/xhttp"
	insaneJSON "github.com/ozontech/insane-json"

	vf "github.com/ozontech/file.d/zzverif"
)

var (
	verifBodies [][]byte
	verifAnswer func(body []byte) (int, error)
	errVerif413 = errors.New("verif: request entity too large")
	errVerif500 = errors.New("verif: server error")
)

// replaces (*xhttp.Client).DoTimeout: captures the request body; the answer is scripted by the harness
func verifStubDo(c *xhttp.Client, method, contentType string, body []byte, timeout time.Duration, process func([]byte) error) (int, error) {
	verifBodies = append(verifBodies, append([]byte(nil), body...))
	if verifAnswer != nil {
		return verifAnswer(body)
	}
	return 200, nil
}

func verifLines(b []byte) [][]byte {
	var out [][]byte
	ls := 0
	for i, c := range b {
		if c == '\n' {
			out = append(out, b[ls:i])
			ls = i + 1
		}
	}
	if ls < len(b) {
		out = append(out, b[ls:])
	}
	return out
}

// C19: http output lines: one line per deliverable event, in batch order, json and raw encoders,
// events with and without the raw field, split parents skipped.
func VerifH_C19_httpLines() {
	n := 1 + vf.Choose("events", vf.Param("K", 3))
	raw := vf.Choose("encoder", 2) == 1
	p := &Plugin{config: &Config{BatchSize_: 4, SplitBatch: vf.Choose("split-batch", 2) == 1}, avgEventSize: 16, mu: &sync.Mutex{}}
	if raw {
		p.encoder = newRawEncoder(&RawEncoderParams{})
	} else {
		p.encoder = newJSONEncoder(&JSONEncoderParams{})
	}
	var events []*pipeline.Event
	var want []string // lines that must be present, in order
	iterable := false
	for i := 0; i < n; i++ {
		id := string(rune('0' + i))
		hasMsg := vf.Choose("has-message", 2) == 1
		doc := `{"id":` + id + `}`
		if hasMsg {
			doc = `{"id":` + id + `,"message":"m` + id + `"}`
		}
		root := insaneJSON.Spawn()
		_ = root.DecodeString(doc)
		ev := &pipeline.Event{Root: root, Size: len(doc)}
		if vf.Choose("parent", 3) == 2 {
			ev.SetChildParentKind()
		} else {
			iterable = true
			switch {
			case !raw:
				want = append(want, doc)
			case hasMsg:
				want = append(want, `"m`+id+`"`)
			}
		}
		events = append(events, ev)
	}
	verifBodies, verifAnswer = nil, nil
	batch := pipeline.NewPreparedBatch(events)
	pipeline.VerifBatchMarkIterable(batch, iterable)
	var wd pipeline.WorkerData
	var err error
	// several workers run out() on the one plugin object at once: whatever it writes must be per worker (WorkerData)
	sharedWrites := vf.SharedWrites(p, func() { err = p.out(&wd, batch) })
	vf.Assert(sharedWrites == 0, "out-does-not-write-to-the-plugin-shared-by-the-workers")
	vf.Assert(err == nil, "send-succeeds")
	if !iterable && len(verifBodies) == 0 {
		return // nothing deliverable: no request is needed (split mode sends none)
	}
	vf.Assert(len(verifBodies) == 1, "one-request")
	if len(verifBodies) != 1 {
		return
	}
	// every expected line is there, in order; nothing else but (for raw) empty lines of events without the field
	lines := verifLines(verifBodies[0])
	k := 0
	extra := false
	for _, l := range lines {
		if k < len(want) && string(l) == want[k] {
			k++
		} else if len(l) != 0 {
			extra = true
		}
	}
	if vf.Param("twin", 0) == 1 {
		vf.Assert(k != len(want), "every-deliverable-event-once-in-order")
		return
	}
	vf.Assert(k == len(want), "every-deliverable-event-once-in-order")
	vf.Assert(!extra, "nothing-but-the-batch-events")
	if len(want) >= 2 {
		vf.Reach("several-lines")
	}
}

// C19: http split_batch: one event is too large on its own; the others still go out exactly once
// when the batch is finally treated as done.
func VerifH_C19_httpSplitOversize() {
	n := 2 + vf.Choose("events", vf.Param("K", 3))
	big := vf.Choose("oversize-event", n)
	var events []*pipeline.Event
	var docs []string
	for i := 0; i < n; i++ {
		doc := `{"n":` + string(rune('0'+i)) + `}`
		if i == big {
			doc = `{"n":` + string(rune('0'+i)) + `,"big":true}`
		}
		root := insaneJSON.Spawn()
		_ = root.DecodeString(doc)
		events = append(events, &pipeline.Event{Root: root, Size: len(doc)})
		docs = append(docs, doc)
	}
	p := &Plugin{config: &Config{BatchSize_: 4, SplitBatch: true}, avgEventSize: 16, mu: &sync.Mutex{}, encoder: newJSONEncoder(&JSONEncoderParams{})}
	verifBodies = nil
	var accepted [][]byte
	// optionally the request carrying the last document fails once with a retryable error
	failLast := vf.Choose("request-with-the-last-document-gets-500", 2) == 1 && big != n-1
	verifAnswer = func(body []byte) (int, error) {
		for _, l := range verifLines(body) {
			if len(l) > 11 && string(l[len(l)-11:]) == `"big":true}` {
				return 413, errVerif413
			}
		}
		if failLast {
			for _, l := range verifLines(body) {
				if string(l) == docs[n-1] {
					return 500, errVerif500
				}
			}
		}
		accepted = append(accepted, append([]byte(nil), body...))
		return 200, nil
	}
	batch := pipeline.NewPreparedBatch(events)
	pipeline.VerifBatchMarkIterable(batch, true)
	var wd pipeline.WorkerData
	err := p.out(&wd, batch)
	if failLast {
		vf.Assert(err != nil, "retryable-failure-of-a-part-is-reported")
	}
	if err != nil {
		return // retried as a whole
	}
	count := make([]int, n)
	for _, b := range accepted {
		for _, l := range verifLines(b) {
			for j := range docs {
				if string(l) == docs[j] {
					count[j]++
				}
			}
		}
	}
	for j := range events {
		if j == big {
			continue
		}
		if vf.Param("twin", 0) == 1 {
			vf.Assert(count[j] != 1, "others-delivered-exactly-once")
			continue
		}
		vf.Assert(count[j] == 1, "others-delivered-exactly-once")
	}
	vf.Reach("oversize-handled")
}
