package elasticsearch

import (
	"errors"
	"sync"
	"time"

	"github.com/ozontech/file.d/pipeline"
	"github.com/ozontech/file.d/xhttp"
	insaneJSON "github.com/ozontech/insane-json"

	vf "github.com/ozontech/file.d/zzverif"
)

// replaces (*xhttp.Client).DoTimeout: captures the request body; the answer is scripted by the harness
type verifReq struct {
	body []byte
}

var (
	verifReqs   []verifReq
	verifAnswer func(body []byte) (int, error)
	errVerif413 = errors.New("verif: request entity too large")
	errVerif500 = errors.New("verif: server error")
)

func verifStubDo(c *xhttp.Client, method, contentType string, body []byte, timeout time.Duration, process func([]byte) error) (int, error) {
	verifReqs = append(verifReqs, verifReq{append([]byte(nil), body...)})
	if verifAnswer != nil {
		return verifAnswer(body)
	}
	return 200, nil
}

func verifPlugin(split bool) *Plugin {
	p := &Plugin{config: &Config{IndexFormat: "idx-%", IndexValues: []string{"app"}, BatchOpType: "index", BatchSize_: 4, SplitBatch: split},
		avgEventSize: 16, mu: &sync.Mutex{}}
	p.headerPrefix = `{"` + p.config.BatchOpType + `":{"_index":"`
	return p
}

func verifLines(b []byte) [][]byte {
	var out [][]byte
	ls := 0
	for i, c := range b {
		if c == '\n' {
			out = append(out, b[ls:i])
			ls = i + 1
		}
	}
	if ls < len(b) {
		out = append(out, b[ls:])
	}
	return out
}

func verifEvent(doc string, id int) *pipeline.Event {
	root := insaneJSON.Spawn()
	if err := root.DecodeString(doc); err != nil {
		panic("verif: bad doc")
	}
	return &pipeline.Event{Root: root, SeqID: uint64(id), Size: len(doc)}
}

// C19.H1: bulk framing: one action line and one document line per deliverable event, each valid JSON.
func VerifH_C19_esFraming() {
	n := 1 + vf.Choose("events", vf.Param("K", 3))
	// values used for the index name: plain, with a quote, a newline, a backslash, a symbolic byte
	appValues := []string{`plain`, `q\"uote`, `new\nline`, `back\\slash`, ``}
	var events []*pipeline.Event
	var docs []string
	var wantIndex []string
	deliverable := 0
	for i := 0; i < n; i++ {
		k := vf.Choose("app-value", len(appValues)+2)
		var ev *pipeline.Event
		if k == len(appValues)+1 {
			// an event whose root is not an object (file.d accepts such events): still one action + one document line
			ev = verifEvent(`[1,"x"]`, i)
		} else if k == len(appValues) {
			ev = verifEvent(`{"app":"x","n":1}`, i)
			c := vf.Byte("app-byte")
			ev.Root.Dig("app").MutateToString(string([]byte{c}))
		} else {
			ev = verifEvent(`{"app":"`+appValues[k]+`","n":`+string(rune('0'+i))+`}`, i)
		}
		if vf.Choose("kind", 3) == 2 {
			ev.SetChildParentKind() // parent of a split: must be omitted
		} else {
			deliverable++
			docs = append(docs, ev.Root.EncodeToString())
			v := ev.Root.Dig("app").AsString()
			if v == "" {
				v = "not_set"
			}
			wantIndex = append(wantIndex, "idx-"+v)
		}
		events = append(events, ev)
	}
	p := verifPlugin(false)
	verifReqs, verifAnswer = nil, nil
	batch := pipeline.NewPreparedBatch(events)
	pipeline.VerifBatchMarkIterable(batch, deliverable > 0)
	var wd pipeline.WorkerData
	var err error
	// several workers run out() on the one plugin object at once: whatever it writes must be per worker (WorkerData)
	sharedWrites := vf.SharedWrites(p, func() { err = p.out(&wd, batch) })
	vf.Assert(sharedWrites == 0, "out-does-not-write-to-the-plugin-shared-by-the-workers")
	vf.Assert(err == nil, "send-succeeds")
	if vf.Param("twin", 0) == 1 {
		vf.Assert(len(verifReqs) != 1, "one-request")
		return
	}
	vf.Assert(len(verifReqs) == 1, "one-request")
	if len(verifReqs) != 1 {
		return
	}
	lines := verifLines(verifReqs[0].body)
	vf.Assert(len(lines) == 2*deliverable, "two-lines-per-deliverable-event")
	if len(lines) != 2*deliverable {
		return
	}
	for i := 0; i < deliverable; i++ {
		hdr := insaneJSON.Spawn()
		herr := hdr.DecodeBytes(lines[2*i])
		vf.Assert(herr == nil, "action-line-is-valid-json")
		raw := false
		for _, c := range lines[2*i] {
			raw = vf.Or(raw, c < 0x20)
		}
		vf.Assert(!raw, "action-line-has-no-raw-control-character") // RFC 8259: must be escaped
		if herr == nil {
			vf.Assert(hdr.Dig("index", "_index").AsString() == wantIndex[i], "action-line-names-the-events-index")
		}
		vf.Assert(string(lines[2*i+1]) == docs[i], "document-line-is-the-event")
	}
	vf.Reach("framed")
}

// C19.H2: splitting on 413: when the send is reported successful the parts cover the batch exactly once.
func VerifH_C19_esSplit() {
	n := 1 + vf.Choose("events", vf.Param("K", 4))
	var events []*pipeline.Event
	for i := 0; i < n; i++ {
		events = append(events, verifEvent(`{"n":`+string(rune('0'+i))+`}`, i))
	}
	p := verifPlugin(true)
	verifReqs = nil
	tooLargeAbove := 1 + vf.Choose("max-docs-per-request", n) // the server accepts at most this many documents
	var accepted [][]byte
	verifAnswer = func(body []byte) (int, error) {
		if len(verifLines(body)) > 2*tooLargeAbove {
			return 413, errVerif413
		}
		if vf.Param("faults", 0) == 1 && vf.Choose("server-error", 2) == 1 {
			return 500, errVerif500
		}
		accepted = append(accepted, append([]byte(nil), body...))
		return 200, nil
	}
	batch := pipeline.NewPreparedBatch(events)
	pipeline.VerifBatchMarkIterable(batch, true)
	var wd pipeline.WorkerData
	err := p.out(&wd, batch)
	if err != nil {
		return // the batch will be retried as a whole: nothing to check
	}
	// success: every document was accepted exactly once, in order
	var got [][]byte
	for _, b := range accepted {
		ls := verifLines(b)
		for i := 1; i < len(ls); i += 2 {
			got = append(got, ls[i])
		}
	}
	if vf.Param("twin", 0) == 1 {
		vf.Assert(len(got) != n, "parts-cover-the-batch-exactly-once")
		return
	}
	vf.Assert(len(got) == n, "parts-cover-the-batch-exactly-once")
	if len(got) == n {
		for i := range got {
			vf.Assert(string(got[i]) == events[i].Root.EncodeToString(), "parts-in-batch-order")
		}
	}
	if len(verifReqs) > 1 {
		vf.Reach("was-split")
	}
}

// C19.H3: per-worker buffers are reused across batches without leaking the previous payload.
func VerifH_C19_bufferReuse() {
	p := verifPlugin(false)
	verifReqs, verifAnswer = nil, nil
	var wd pipeline.WorkerData
	sizes := []int{1 + vf.Choose("first", 3), 1 + vf.Choose("second", 3)}
	var want []string
	id := 0
	for _, n := range sizes {
		var evs []*pipeline.Event
		w := ""
		for i := 0; i < n; i++ {
			ev := verifEvent(`{"app":"a","id":`+string(rune('0'+id))+`}`, id)
			id++
			evs = append(evs, ev)
			w += `{"index":{"_index":"idx-a"}}` + "\n" + ev.Root.EncodeToString() + "\n"
		}
		want = append(want, w)
		b := pipeline.NewPreparedBatch(evs)
		pipeline.VerifBatchMarkIterable(b, true)
		vf.Assert(p.out(&wd, b) == nil, "send-succeeds")
	}
	vf.Assert(len(verifReqs) == 2, "two-requests")
	if len(verifReqs) == 2 {
		if vf.Param("twin", 0) == 1 {
			vf.Assert(string(verifReqs[1].body) != want[1], "second-payload-only-its-own-events")
			return
		}
		vf.Assert(string(verifReqs[0].body) == want[0], "first-payload")
		vf.Assert(string(verifReqs[1].body) == want[1], "second-payload-only-its-own-events")
		vf.Reach("reused")
	}
}

// C19.H2b: one document is too large on its own (413 even alone): it cannot be delivered, but the
// others of the batch still are, exactly once, when the batch is finally committed.
func VerifH_C19_esSplitOversize() {
	n := 2 + vf.Choose("events", vf.Param("K", 3))
	big := vf.Choose("oversize-event", n)
	var events []*pipeline.Event
	for i := 0; i < n; i++ {
		doc := `{"n":` + string(rune('0'+i)) + `}`
		if i == big {
			doc = `{"n":` + string(rune('0'+i)) + `,"big":true}`
		}
		events = append(events, verifEvent(doc, i))
	}
	p := verifPlugin(true)
	verifReqs = nil
	var accepted [][]byte
	// optionally the request carrying the last document fails once with a retryable error
	failLast := vf.Choose("request-with-the-last-document-gets-500", 2) == 1 && big != n-1
	lastDoc := events[n-1].Root.EncodeToString()
	verifAnswer = func(body []byte) (int, error) {
		for _, l := range verifLines(body) {
			if len(l) > 8 && string(l[len(l)-11:]) == `"big":true}` {
				return 413, errVerif413
			}
		}
		if failLast {
			for _, l := range verifLines(body) {
				if string(l) == lastDoc {
					return 500, errVerif500
				}
			}
		}
		accepted = append(accepted, append([]byte(nil), body...))
		return 200, nil
	}
	batch := pipeline.NewPreparedBatch(events)
	pipeline.VerifBatchMarkIterable(batch, true)
	var wd pipeline.WorkerData
	err := p.out(&wd, batch)
	if failLast {
		vf.Assert(err != nil, "retryable-failure-of-a-part-is-reported")
	}
	if err != nil {
		return // retried as a whole
	}
	// the batch is considered done (it will be committed): every deliverable document went out once
	count := make([]int, n)
	for _, b := range accepted {
		ls := verifLines(b)
		for i := 1; i < len(ls); i += 2 {
			for j, ev := range events {
				if string(ls[i]) == ev.Root.EncodeToString() {
					count[j]++
				}
			}
		}
	}
	for j := range events {
		if j == big {
			continue
		}
		if vf.Param("twin", 0) == 1 {
			vf.Assert(count[j] != 1, "others-delivered-exactly-once")
			continue
		}
		vf.Assert(count[j] == 1, "others-delivered-exactly-once")
	}
	vf.Reach("oversize-handled")
}
