package socket

import (
	"net"
	"time"

	"github.com/ozontech/file.d/pipeline"
	insaneJSON "github.com/ozontech/insane-json"

	vf "github.com/ozontech/file.d/zzverif"
)

// a connection that accepts one byte, half or all of every write and may fail
type verifConn struct {
	got    []byte
	failAt int // fail the write that would start at this stream position (-1: never)
	closed bool
	shorts int // writes that were offered a choice so far (the later ones are accepted whole)
}

func (c *verifConn) Write(b []byte) (int, error) {
	if c.failAt >= 0 && len(c.got) >= c.failAt {
		return 0, errVerifDial
	}
	n := len(b)
	if c.failAt >= 0 && n > c.failAt-len(c.got) {
		n = c.failAt - len(c.got) // the connection breaks after this many more bytes
	}
	if n > 1 && c.shorts < vf.Param("SHORTS", 2) {
		c.shorts++
		n = []int{1, (n + 1) / 2, n}[vf.Choose("accepted", 3)] // one byte, half, everything
	}
	c.got = append(c.got, b[:n]...)
	return n, nil
}
func (c *verifConn) Read([]byte) (int, error)         { return 0, nil }
func (c *verifConn) Close() error                     { c.closed = true; return nil }
func (c *verifConn) LocalAddr() net.Addr              { return nil }
func (c *verifConn) RemoteAddr() net.Addr             { return nil }
func (c *verifConn) SetDeadline(time.Time) error      { return nil }
func (c *verifConn) SetReadDeadline(time.Time) error  { return nil }
func (c *verifConn) SetWriteDeadline(time.Time) error { return nil }

var verifConns []*verifConn
var verifNextFailAt int

// replaces (*Plugin).dial: hands out a fresh recording connection
func verifStubDialConn(p *Plugin) (net.Conn, error) {
	c := &verifConn{failAt: verifNextFailAt}
	verifNextFailAt = -1
	verifConns = append(verifConns, c)
	return c, nil
}

// C19: the socket output: the byte stream of one batch is, in order, each event's JSON followed by the
// delimiter, whatever parts of a write the connection accepts (short writes); after a failed write the
// connection is dropped and the retry sends the whole batch again on a new one; a worker's buffer reused for
// the next batch carries nothing over.
func VerifH_C19_socketFrames() {
	verifConns, verifNextFailAt = nil, -1
	p := &Plugin{config: &Config{Network: "tcp", Address: "x:1", Delimiter_: '\n', BatchSize_: 2}, avgEventSize: 4}
	docs := []string{`{"a":1}`, `{"b":"x\ny"}`, `{"c":[1,2]}`, `{}`}
	var wd pipeline.WorkerData
	batches := 1 + vf.Choose("batches", vf.Param("B", 2))
	for b := 0; b < batches; b++ {
		n := 1 + vf.Choose("events", 2)
		events := make([]*pipeline.Event, n)
		want := ""
		for i := range events {
			d := docs[(2*b+i)%len(docs)]
			root := insaneJSON.Spawn()
			_ = root.DecodeString(d)
			events[i] = &pipeline.Event{Root: root, Size: len(d)}
			want += d + "\n"
		}
		if vf.Choose("write-fails", 2) == 1 {
			cur := 0
			if len(verifConns) > 0 && !verifConns[len(verifConns)-1].closed {
				cur = len(verifConns[len(verifConns)-1].got)
				verifConns[len(verifConns)-1].failAt = cur + vf.Choose("fail-after", len(want))
			} else {
				verifNextFailAt = vf.Choose("fail-after", len(want))
			}
			err := p.out(&wd, pipeline.NewPreparedBatch(events))
			vf.Assert(err != nil, "failed-write-is-reported")
			vf.Assert(verifConns[len(verifConns)-1].closed, "connection-dropped-after-a-failed-write")
			vf.Reach("write-failed")
		}
		before := 0
		if len(verifConns) > 0 && !verifConns[len(verifConns)-1].closed {
			before = len(verifConns[len(verifConns)-1].got)
		}
		err := p.out(&wd, pipeline.NewPreparedBatch(events))
		vf.Assert(err == nil, "send-succeeds")
		c := verifConns[len(verifConns)-1]
		if vf.Param("twin", 0) == 1 {
			vf.Assert(string(c.got[before:]) != want, "stream-is-each-event-then-delimiter")
			return
		}
		vf.Assert(string(c.got[before:]) == want, "stream-is-each-event-then-delimiter")
	}
	vf.Reach("frames-checked")
}
