package socket

import (
	"errors"
	"net"
	"time"

	"github.com/ozontech/file.d/pipeline"
	insaneJSON "github.com/ozontech/insane-json"
	"go.uber.org/zap"

	vf "github.com/ozontech/file.d/zzverif"
)

var errVerifDial = errors.New("verif: connection refused")

// replaces (*Plugin).dial: the endpoint is down
func verifStubDial(p *Plugin) (net.Conn, error) { return nil, errVerifDial }

type verifCtl struct {
	commits map[*pipeline.Event]int
}

func (c *verifCtl) Commit(e *pipeline.Event) { c.commits[e]++ }
func (c *verifCtl) Error(string)             {}

// the dead queue: an output of its own; it finishes (commits) what it is given
type verifDeadQueue struct {
	ctl *verifCtl
	got []*pipeline.Event
}

func (d *verifDeadQueue) Start(pipeline.AnyConfig, *pipeline.OutputPluginParams) {}
func (d *verifDeadQueue) Stop()                                                  {}
func (d *verifDeadQueue) Out(e *pipeline.Event) {
	d.got = append(d.got, e)
	d.ctl.Commit(e)
}

// C05 / C09: the socket output as its Start wires it (batcher, retry policy, dead queue flag taken from
// the router), endpoint down: an event that was handed to the dead queue after the retries is finished by
// the dead queue only - the main batcher does not commit it a second time; without a dead queue it is
// committed once by the main batcher.
func VerifH_C05_socketStartWiring() {
	ctl := &verifCtl{commits: map[*pipeline.Event]int{}}
	router := pipeline.NewRouter()
	dq := &verifDeadQueue{ctl: ctl}
	withDQ := vf.Choose("dead-queue-configured", 2) == 1
	if withDQ {
		router.SetDeadQueueOutput(&pipeline.OutputPluginInfo{PluginStaticInfo: &pipeline.PluginStaticInfo{Type: "dq"}, PluginRuntimeInfo: &pipeline.PluginRuntimeInfo{Plugin: dq}})
	}
	cfg := &Config{Network: "tcp", Address: "x:1", Delimiter: "\n", Retry: 1, Retention_: 10 * time.Millisecond, RetentionExponentMultiplier: 1,
		WorkersCount_: 1, BatchSize_: 1 + vf.Choose("batch-size", 2), BatchFlushTimeout_: 100 * time.Millisecond, ReconnectInterval_: time.Minute}
	params := &pipeline.OutputPluginParams{PluginDefaultParams: pipeline.PluginDefaultParams{PipelineName: "t", PipelineSettings: &pipeline.Settings{AvgEventSize: 16}},
		Controller: ctl, Router: router}
	if !vf.Symbolic() {
		params.Logger = zap.NewNop().Sugar()
	}
	p := &Plugin{}
	p.Start(cfg, params)
	n := 1 + vf.Choose("events", 2)
	events := make([]*pipeline.Event, n)
	for i := range events {
		root := insaneJSON.Spawn()
		_ = root.DecodeString(`{"k":1}`)
		events[i] = &pipeline.Event{Root: root, Size: 7, SeqID: uint64(i + 1)}
		p.Out(events[i])
	}
	vf.Quiesce(2000)
	for _, e := range events {
		if vf.Param("twin", 0) == 1 {
			vf.Assert(ctl.commits[e] != 1, "event-finished-exactly-once")
			continue
		}
		vf.Assert(ctl.commits[e] == 1, "event-finished-exactly-once")
	}
	if withDQ {
		vf.Assert(len(dq.got) == n, "failed-events-went-to-the-dead-queue")
		vf.Reach("dead-queue-used")
	}
	p.Stop()
}
