package gelf

import (
	"time"

	"github.com/ozontech/file.d/pipeline"
	insaneJSON "github.com/ozontech/insane-json"
	"go.uber.org/zap"

	vf "github.com/ozontech/file.d/zzverif"
)

type verifWCtl struct {
	commits map[*pipeline.Event]int
}

func (c *verifWCtl) Commit(e *pipeline.Event) { c.commits[e]++ }
func (c *verifWCtl) Error(string)             {}

// the dead queue: an output of its own; it finishes (commits) what it is given
type verifDeadQueue struct {
	ctl *verifWCtl
	got []*pipeline.Event
}

func (d *verifDeadQueue) Start(pipeline.AnyConfig, *pipeline.OutputPluginParams) {}
func (d *verifDeadQueue) Stop()                                                  {}
func (d *verifDeadQueue) Out(e *pipeline.Event) {
	d.got = append(d.got, e)
	d.ctl.Commit(e)
}

// C05 / C09: the gelf output as its Start wires it (batcher, retry policy, dead queue flag taken from
// the router), endpoint down: an event that was handed to the dead queue after the retries is finished by
// the dead queue only - the main batcher does not commit it a second time; without a dead queue it is
// committed once by the main batcher.
func VerifH_C05_gelfStartWiring() {
	ctl := &verifWCtl{commits: map[*pipeline.Event]int{}}
	router := pipeline.NewRouter()
	dq := &verifDeadQueue{ctl: ctl}
	withDQ := vf.Choose("dead-queue-configured", 2) == 1
	if withDQ {
		router.SetDeadQueueOutput(&pipeline.OutputPluginInfo{PluginStaticInfo: &pipeline.PluginStaticInfo{Type: "dq"}, PluginRuntimeInfo: &pipeline.PluginRuntimeInfo{Plugin: dq}})
	}
	verifSent, verifFailures = nil, 1000 // every send fails
	cfg := &Config{Endpoint: "x:1", HostField: "host", ShortMessageField: "message", DefaultShortMessageValue: "not set", FullMessageField: "message", TimestampField: "time", TimestampFieldFormat: "rfc3339nano", LevelField: "level", Retry: 1, Retention_: 10 * time.Millisecond, RetentionExponentMultiplier: 1,
		WorkersCount_: 1, BatchSize_: 1 + vf.Choose("batch-size", 2), BatchFlushTimeout_: 100 * time.Millisecond, ReconnectInterval_: time.Minute}
	params := &pipeline.OutputPluginParams{PluginDefaultParams: pipeline.PluginDefaultParams{PipelineName: "t", PipelineSettings: &pipeline.Settings{AvgEventSize: 16}},
		Controller: ctl, Router: router}
	if !vf.Symbolic() {
		params.Logger = zap.NewNop().Sugar()
	}
	p := &Plugin{}
	p.Start(cfg, params)
	n := 1 + vf.Choose("events", 2)
	events := make([]*pipeline.Event, n)
	for i := range events {
		root := insaneJSON.Spawn()
		_ = root.DecodeString(`{"k":1}`)
		events[i] = &pipeline.Event{Root: root, Size: 7, SeqID: uint64(i + 1)}
		p.Out(events[i])
	}
	vf.Quiesce(8000) // a failed gelf send sleeps a second before it reports the failure
	for _, e := range events {
		if vf.Param("twin", 0) == 1 {
			vf.Assert(ctl.commits[e] != 1, "event-finished-exactly-once")
			continue
		}
		vf.Assert(ctl.commits[e] == 1, "event-finished-exactly-once")
	}
	if withDQ {
		vf.Assert(len(dq.got) == n, "failed-events-went-to-the-dead-queue")
		vf.Reach("dead-queue-used")
	}
	p.Stop()
}
