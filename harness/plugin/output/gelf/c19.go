package gelf

import (
	"crypto/tls"
	"errors"
	"time"

	"github.com/ozontech/file.d/pipeline"
	insaneJSON "github.com/ozontech/insane-json"

	vf "github.com/ozontech/file.d/zzverif"
)

var (
	verifSent     [][]byte
	verifFailures int
	errVerifSend  = errors.New("verif: connection reset")
)

func verifStubNewClient(address string, connTimeout, writeTimeout time.Duration, useTLS bool, tlsConfig *tls.Config) (*client, error) {
	return &client{}, nil
}

func verifStubSend(g *client, data []byte) (int, error) {
	verifSent = append(verifSent, append([]byte(nil), data...))
	if verifFailures > 0 {
		verifFailures--
		return 0, errVerifSend
	}
	return len(data), nil
}

func verifStubClose(g *client) error { return nil }

func verifGelfPlugin() *Plugin {
	p := &Plugin{config: &Config{BatchSize_: 4, Endpoint: "x:1"}, avgEventSize: 32}
	p.config.hostField = "_host"
	p.config.shortMessageField = "_message"
	p.config.defaultShortMessageValue = "not set"
	p.config.fullMessageField = "_full"
	p.config.timestampField = "_ts"
	p.config.timestampFieldFormat = time.RFC3339Nano
	p.config.levelField = "_level"
	return p
}

// C19: GELF envelopes: one NUL-terminated document per deliverable event built from that event only,
// and the same payload again when the batch has to be sent a second time.
func VerifH_C19_gelfEnvelopes() {
	n := 1 + vf.Choose("events", vf.Param("K", 2))
	retry := vf.Choose("first-send-fails", 2) == 1
	p := verifGelfPlugin()
	var events []*pipeline.Event
	var want []string
	iterable := false
	for i := 0; i < n; i++ {
		id := string(rune('0' + i))
		doc := `{"k":"v` + id + `"`
		w := `{"_k":"v` + id + `"`
		hasHost := vf.Choose("has-host", 2) == 1
		hasMsg := vf.Choose("has-message", 2) == 1
		hasLevel := vf.Choose("has-level", 2) == 1
		if hasHost {
			doc += `,"host":"h` + id + `"`
			w += `,"host":"h` + id + `"`
		}
		if hasMsg {
			doc += `,"message":"m` + id + `"`
			w += `,"short_message":"m` + id + `"`
		}
		if hasLevel {
			doc += `,"level":"error"`
		}
		if vf.Choose("has-version", 2) == 1 {
			doc += `,"version":"1.1"` // e.g. the HTTP version of an access-log record
			w += `,"_version":"1.1"`
		}
		doc += `,"o":{"a":[1]}}`
		w += `,"_o":"{\"a\":[1]}"`
		w += `,"version":"1.1"`
		if !hasHost {
			w += `,"host":"unknown"`
		}
		if !hasMsg {
			w += `,"short_message":"not set"`
		}
		if hasLevel {
			w += `,"level":3`
		}
		w += `}`
		root := insaneJSON.Spawn()
		_ = root.DecodeString(doc)
		ev := &pipeline.Event{Root: root, Size: len(doc)}
		if vf.Choose("parent", 3) == 2 {
			ev.SetChildParentKind()
		} else {
			iterable = true
			want = append(want, w)
		}
		events = append(events, ev)
	}
	verifSent, verifFailures = nil, 0
	if retry {
		verifFailures = 1
	}
	batch := pipeline.NewPreparedBatch(events)
	pipeline.VerifBatchMarkIterable(batch, iterable)
	var wd pipeline.WorkerData
	var err error
	// several workers run out() on the one plugin object at once: whatever it writes must be per worker (WorkerData)
	sharedWrites := vf.SharedWrites(p, func() { err = p.out(&wd, batch) })
	vf.Assert(sharedWrites == 0, "out-does-not-write-to-the-plugin-shared-by-the-workers")
	if retry {
		vf.Assert(err != nil, "failed-send-is-reported")
		err = p.out(&wd, batch) // what RetriableBatcher does
	}
	vf.Assert(err == nil, "send-succeeds")
	last := verifSent[len(verifSent)-1]
	// split at NUL
	var docs [][]byte
	st := 0
	for i, c := range last {
		if c == 0 {
			docs = append(docs, last[st:i])
			st = i + 1
		}
	}
	ok := st == len(last) && len(docs) == len(want)
	if ok {
		for i := range docs {
			if !verifSameFields(docs[i], want[i]) {
				ok = false
			}
		}
	}
	if vf.Param("twin", 0) == 1 {
		vf.Assert(!ok, "one-envelope-per-event-built-from-that-event-only")
		return
	}
	if retry {
		vf.Assert(ok, "resent-payload-is-the-same-envelopes")
		vf.Reach("resent")
	} else {
		vf.Assert(ok, "one-envelope-per-event-built-from-that-event-only")
	}
}

// verifSameFields: both documents are objects with the same set of (key, encoded value) pairs (order free)
func verifSameFields(got []byte, want string) bool {
	g, w := insaneJSON.Spawn(), insaneJSON.Spawn()
	if g.DecodeBytes(got) != nil || w.DecodeString(want) != nil || !g.IsObject() {
		return false
	}
	gf, wf := g.AsFields(), w.AsFields()
	if len(gf) != len(wf) {
		return false
	}
	for _, f := range wf {
		v := g.Dig(f.AsString())
		if v == nil || v.EncodeToString() != f.AsFieldValue().EncodeToString() {
			return false
		}
	}
	return true
}
