package file

import (
	"os"
	"sync"

	"github.com/ozontech/file.d/pipeline"
	insaneJSON "github.com/ozontech/insane-json"

	vf "github.com/ozontech/file.d/zzverif"
)

var verifWritten [][]byte

func verifStubWrite(f *os.File, b []byte) (int, error) {
	verifWritten = append(verifWritten, append([]byte(nil), b...))
	return len(b), nil
}

// C19: file output: one line per deliverable event, each the event's encoding, nothing of earlier batches.
func VerifH_C19_fileLines() {
	p := &Plugin{config: &Config{BatchSize_: 3}, avgEventSize: vf.Param("AVG", 8), mu: &sync.RWMutex{}, file: new(os.File)}
	var wd pipeline.WorkerData
	var want []string
	verifWritten = nil
	id := 0
	for b := 0; b < 2; b++ {
		n := 1 + vf.Choose("events", vf.Param("K", 3))
		var evs []*pipeline.Event
		w := ""
		for i := 0; i < n; i++ {
			variant := vf.Choose("event", 4) // plain | escaped newline | long with quote | split parent
			doc := `{"id":` + string(rune('0'+id)) + `,"msg":"` + []string{"a", "line\\nbreak", "q\\\"uote long long long long", "p"}[variant] + `"}`
			id++
			root := insaneJSON.Spawn()
			_ = root.DecodeString(doc)
			ev := &pipeline.Event{Root: root, Size: len(doc)}
			if variant == 3 {
				ev.SetChildParentKind()
			} else {
				w += doc + "\n"
			}
			evs = append(evs, ev)
		}
		want = append(want, w)
		p.out(&wd, pipeline.NewPreparedBatch(evs))
	}
	if vf.Param("twin", 0) == 1 {
		vf.Assert(len(verifWritten) != 2, "one-write-per-batch")
		return
	}
	vf.Assert(len(verifWritten) == 2, "one-write-per-batch")
	for b := range want {
		if b < len(verifWritten) {
			vf.Assert(string(verifWritten[b]) == want[b], "lines-are-the-batch-events-in-order")
		}
	}
	vf.Reach("written")
}
