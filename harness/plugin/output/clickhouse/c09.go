package clickhouse

import (
	"context"
	"errors"
	"time"

	"github.com/ClickHouse/ch-go"
	"github.com/ozontech/file.d/pipeline"
	insaneJSON "github.com/ozontech/insane-json"

	vf "github.com/ozontech/file.d/zzverif"
)

type verifNetErr struct{}

func (verifNetErr) Error() string   { return "verif: connection refused" }
func (verifNetErr) Timeout() bool   { return false }
func (verifNetErr) Temporary() bool { return false }

var errVerifInsert = errors.New("verif: insert failed")

// a clickhouse host: every insert succeeds, fails with a network error (the host gets banned) or
// fails otherwise
type verifHost struct{ ok *int }

func (verifHost) Close() {}
func (h verifHost) Do(ctx context.Context, q ch.Query) error {
	switch vf.Choose("insert", 3) {
	case 0:
		*h.ok++
		return nil
	case 1:
		return verifNetErr{}
	}
	return errVerifInsert
}

func verifStubWithTimeout(parent context.Context, d time.Duration) (context.Context, context.CancelFunc) {
	return parent, func() {}
}

// C09 (sink side of "a failed send is retried"): the clickhouse output reports success for a batch
// only when an insert really succeeded; with every host failing or banned it reports the failure, so
// the batch is retried / routed and not committed as sent.
func VerifH_C09_clickhouseOutReportsFailure() {
	n := vf.Choose("hosts", 3)
	ok := 0
	p := &Plugin{config: &Config{}, ctx: context.Background(), bannedHosts: map[Address]time.Time{}}
	for i := 0; i < n; i++ {
		p.instances = append(p.instances, instance{addr: Address{Addr: string(rune('a' + i))}, pool: verifHost{&ok}})
	}
	root := insaneJSON.Spawn()
	_ = root.DecodeString(`{"k":1}`)
	var wd pipeline.WorkerData
	for round := 0; round < 2; round++ { // the second call sees the hosts banned by the first one
		before := ok
		err := p.out(&wd, pipeline.NewPreparedBatch([]*pipeline.Event{{Root: root, Size: 7}}))
		if vf.Param("twin", 0) == 1 {
			vf.Assert((err == nil) != (ok > before), "success-only-after-a-successful-insert")
			continue
		}
		vf.Assert((err == nil) == (ok > before), "success-only-after-a-successful-insert")
		if err != nil && len(p.instances) == 0 {
			vf.Reach("all-hosts-banned")
		}
	}
}
