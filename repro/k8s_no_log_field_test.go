package k8s

// Reproducer (copy into /repo/plugin/input/k8s/): a container log line that decodes but has no "log"
// field made the k8s multi-line action call logger.Fatalf: the collector exits, and since the line is
// not committed it is read again after the restart. Runs the action in a child process.

import (
	"os"
	"os/exec"
	"testing"

	"github.com/ozontech/file.d/logger"
	"github.com/ozontech/file.d/pipeline"
	"github.com/ozontech/file.d/plugin/input/k8s/meta"
	"github.com/ozontech/file.d/test"
	insaneJSON "github.com/ozontech/insane-json"
)

func TestVerifK8sLineWithoutLogField(t *testing.T) {
	if os.Getenv("VERIF_CHILD") == "1" {
		meta.EnableGatherer(logger.Instance)
		plugin := &MultilineAction{}
		plugin.Start(&Config{SplitEventSize: predictionLookahead * 4}, test.NewEmptyActionPluginParams())
		item := &meta.MetaItem{Namespace: "sre", PodName: "p-1111111111-trtrq", ContainerName: "c", ContainerID: "4e0301b633eaa2bfdcafdeba59ba0c72a3815911a6a820bf273534b0f32d98e0"}
		root := insaneJSON.Spawn()
		_ = root.DecodeString(`{"stream":"stdout","time":"2024-01-01T00:00:00Z"}`)
		event := &pipeline.Event{Root: root, SourceName: getLogFilename("k8s", item), Size: 40}
		pipeline.CreateNestedField(event.Root, []string{"k8s_pod"}).MutateToString(string(item.PodName))
		pipeline.CreateNestedField(event.Root, []string{"k8s_namespace"}).MutateToString(string(item.Namespace))
		pipeline.CreateNestedField(event.Root, []string{"k8s_container"}).MutateToString(string(item.ContainerName))
		pipeline.CreateNestedField(event.Root, []string{"k8s_container_id"}).MutateToString(string(item.ContainerID))
		plugin.Do(event)
		return
	}
	cmd := exec.Command(os.Args[0], "-test.run", "TestVerifK8sLineWithoutLogField")
	cmd.Env = append(os.Environ(), "VERIF_CHILD=1")
	if out, err := cmd.CombinedOutput(); err != nil {
		tail := string(out)
		if len(tail) > 400 {
			tail = tail[len(tail)-400:]
		}
		t.Fatalf("the collector process exited on a line without the log field: %v\n%s", err, tail)
	}
}
