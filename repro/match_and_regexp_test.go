package pipeline

// Native reproducer for the C14 defect fixed by "fix: match_mode and with a regexp condition never matches":
// place into pipeline/ and run: go test -vet=off -count=1 -run TestVerifReproMatchAndRegexp ./pipeline/

import (
	"regexp"
	"testing"

	insaneJSON "github.com/ozontech/insane-json"
)

func TestVerifReproMatchAndRegexp(t *testing.T) {
	root := insaneJSON.Spawn()
	_ = root.DecodeString(`{"k8s_pod":"payment-api-abcd"}`)
	conds := MatchConditions{{Field: []string{"k8s_pod"}, Regexp: regexp.MustCompile(`^payment-api.*`)}}
	for _, mode := range []MatchMode{MatchModeAnd, MatchModeOr} {
		p := &processor{actionInfos: []*ActionPluginStaticInfo{{MatchConditions: conds, MatchMode: mode}}}
		if !p.isMatch(0, &Event{Root: root}) {
			t.Fatalf("mode %d: a matching regexp condition must select the event", mode)
		}
	}
}
