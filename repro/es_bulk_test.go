package elasticsearch

// Native reproducers for the two C19 defects fixed in /repo (index value escaping, oversize event in split mode):
// place into plugin/output/elasticsearch/ and run: go test -vet=off -count=1 -run TestVerifReproES ./plugin/output/elasticsearch/

import (
	"strings"
	"sync"
	"testing"

	"github.com/ozontech/file.d/pipeline"
	insaneJSON "github.com/ozontech/insane-json"
)

func TestVerifReproESIndexEscaping(t *testing.T) {
	p := &Plugin{config: &Config{IndexFormat: "idx-%", IndexValues: []string{"app"}, BatchOpType: "index"}, mu: &sync.Mutex{}}
	p.headerPrefix = `{"index":{"_index":"`
	root := insaneJSON.Spawn()
	_ = root.DecodeString(`{"app":"a\"b\nc"}`)
	out := p.appendEvent(nil, &pipeline.Event{Root: root})
	lines := strings.Split(strings.TrimSuffix(string(out), "\n"), "\n")
	if len(lines) != 2 {
		t.Fatalf("expected an action line and a document line, got %d lines: %q", len(lines), out)
	}
	if err := insaneJSON.Spawn().DecodeString(lines[0]); err != nil {
		t.Fatalf("action line is not valid JSON: %q", lines[0])
	}
}
