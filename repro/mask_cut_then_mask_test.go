package mask

// Native reproducer for the C17 defect fixed by "fix: mask: a value cut by one mask is restored by the next":
// place into plugin/action/mask/ and run: go test -vet=off -count=1 -run TestVerifReproCutThenMask ./plugin/action/mask/

import (
	"testing"
	"time"

	"github.com/ozontech/file.d/metric"
	"github.com/ozontech/file.d/pipeline"
	insaneJSON "github.com/ozontech/insane-json"
	"github.com/prometheus/client_golang/prometheus"
	"go.uber.org/zap"
)

func TestVerifReproCutThenMask(t *testing.T) {
	cfg := &Config{Masks: []Mask{{Re: "(topsecret)", Groups: []int{1}, CutValues: true}, {Re: "(nomatch)", Groups: []int{1}}}}
	p := &Plugin{}
	p.Start(cfg, &pipeline.ActionPluginParams{
		PluginDefaultParams: pipeline.PluginDefaultParams{PipelineSettings: &pipeline.Settings{AvgEventSize: 16},
			MetricCtl: metric.NewCtl("verif", prometheus.NewRegistry(), time.Minute, 0)},
		Logger: zap.NewNop().Sugar()})
	root := insaneJSON.Spawn()
	_ = root.DecodeString(`{"secret":"topsecret"}`)
	p.Do(&pipeline.Event{Root: root})
	if got := root.EncodeToString(); got != `{"secret":""}` {
		t.Fatalf("the cut value came back: %s", got)
	}
}
