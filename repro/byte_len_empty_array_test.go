package doif

// Reproducer (copy into /repo/pipeline/doif/): byte_len_cmp saw `[]` and `{}` as 1 byte long.
// Fails before "fix: byte_len_cmp size of empty arrays and objects", passes after.

import (
	"testing"

	insaneJSON "github.com/ozontech/insane-json"
)

func TestVerifByteLenEmptyArray(t *testing.T) {
	for _, doc := range []string{`{"f":[]}`, `{"f":{}}`} {
		root := insaneJSON.Spawn()
		if err := root.DecodeString(doc); err != nil {
			t.Fatal(err)
		}
		n, err := NewLenCmpOpNode("byte_len_cmp", "f", "lt", 2)
		if err != nil {
			t.Fatal(err)
		}
		if n.Check(NewEventData(root)) {
			t.Errorf("%s: value is 2 bytes long but byte_len_cmp lt 2 matched", doc)
		}
		insaneJSON.Release(root)
	}
}
