package file

// Native reproducer for the C03 known finding (a stream that has never been committed is skipped on resume):
// place into plugin/input/file/ and run: go test -vet=off -count=1 -run TestVerifReproResumeSkipsStream ./plugin/input/file/

import (
	"os"
	"path/filepath"
	"sync"
	"testing"

	"github.com/ozontech/file.d/pipeline"
)

func TestVerifReproResumeSkipsStream(t *testing.T) {
	// file: line 1 (stream stdout, ends at 2) was read but NOT acknowledged before the kill;
	// line 2 (stream stderr, ends at 4) was acknowledged and its offset persisted.
	name := filepath.Join(t.TempDir(), "f.log")
	if err := os.WriteFile(name, []byte("a\nb\n"), 0o600); err != nil {
		t.Fatal(err)
	}
	f, _ := os.Open(name)
	defer f.Close()
	jp := &jobProvider{config: &Config{}, jobs: map[pipeline.SourceID]*Job{}, jobsMu: &sync.RWMutex{},
		loadedOffsets: fpOffsets{7: {sourceID: 7, filename: name, streams: map[pipeline.StreamName]int64{"stderr": 4}}}}
	job := &Job{file: f, sourceID: 7, filename: name, mu: &sync.Mutex{}}
	jp.initJobOffset(offsetsOpContinue, job)
	if job.curOffset > 0 {
		t.Fatalf("resume starts at offset %d: the unacknowledged stdout line ending at 2 is never read again", job.curOffset)
	}
}
