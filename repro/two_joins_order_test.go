package join

// Reproducer (copy into /repo/plugin/action/join/): two multi-line actions in a row. The first one
// flushes its run through Propagate into the second one, which holds it; the processor then fetches
// the next event of the stream from inside Propagate (i.e. from inside the first action's Do, which
// has not stored the event it is handling yet), so later events overtake earlier ones.

import (
	"strings"
	"sync"
	"testing"
	"time"

	"github.com/ozontech/file.d/cfg"
	"github.com/ozontech/file.d/pipeline"
	"github.com/ozontech/file.d/test"
)

func TestVerifTwoJoinsKeepOrder(t *testing.T) {
	mk := func() *pipeline.ActionPluginStaticInfo {
		return &pipeline.ActionPluginStaticInfo{
			PluginStaticInfo: test.NewPluginStaticInfo(factory, test.NewConfig(&Config{
				Field:    "log",
				Start:    cfg.Regexp(`/^S/`),
				Continue: cfg.Regexp(`/^c/`),
			}, nil)),
			MatchMode: pipeline.MatchModeAnd,
		}
	}
	p, input, output := test.NewPipelineMock([]*pipeline.ActionPluginStaticInfo{mk(), mk()}, "short_event_timeout")
	var mu sync.Mutex
	var got []string
	output.SetOutFn(func(e *pipeline.Event) {
		mu.Lock()
		got = append(got, e.Root.Dig("log").AsString())
		mu.Unlock()
	})
	for i, l := range []string{"S1", "S2", "S3", "S4"} {
		input.In(0, "test.log", test.NewOffset(int64(i+1)), []byte(`{"log":"`+l+`"}`))
	}
	deadline := time.Now().Add(3 * time.Second)
	for time.Now().Before(deadline) {
		mu.Lock()
		n := len(got)
		mu.Unlock()
		if n == 4 {
			break
		}
		time.Sleep(20 * time.Millisecond)
	}
	p.Stop()
	mu.Lock()
	defer mu.Unlock()
	if s := strings.Join(got, ","); s != "S1,S2,S3,S4" {
		t.Fatalf("events left the pipeline as %q, want S1,S2,S3,S4", s)
	}
}
