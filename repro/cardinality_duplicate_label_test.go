package cardinality

// Reproducer (copy into /repo/plugin/action/cardinality/): key_fields whose selectors give the same
// metric label name ("a.b" and "a_b", or simply a repeated field) were accepted; the label names were
// de-duplicated but the values were not, so the first event made prometheus panic with "inconsistent
// label cardinality" on the processor goroutine. Runs the pipeline in a child process.

import (
	"os"
	"os/exec"
	"testing"
	"time"

	"github.com/ozontech/file.d/cfg"
	"github.com/ozontech/file.d/pipeline"
	"github.com/ozontech/file.d/test"
)

func TestVerifCardinalityDuplicateLabelNames(t *testing.T) {
	if os.Getenv("VERIF_CHILD") == "1" {
		config := test.NewConfig(&Config{KeyFields: []cfg.FieldSelector{"a.b", "a_b"}, Fields: []cfg.FieldSelector{"v"}, Limit: 10, Action: "discard", TTL: "1h"}, nil)
		p, input, output := test.NewPipelineMock(test.NewActionPluginStaticInfo(factory, config, pipeline.MatchModeAnd, nil, false))
		done := make(chan struct{}, 1)
		output.SetOutFn(func(e *pipeline.Event) { done <- struct{}{} })
		input.In(0, "test.log", test.NewOffset(0), []byte(`{"a":{"b":"x"},"a_b":"y","v":"1"}`))
		select {
		case <-done:
		case <-time.After(2 * time.Second):
		}
		p.Stop()
		return
	}
	cmd := exec.Command(os.Args[0], "-test.run", "TestVerifCardinalityDuplicateLabelNames")
	cmd.Env = append(os.Environ(), "VERIF_CHILD=1")
	if out, err := cmd.CombinedOutput(); err != nil {
		tail := string(out)
		if len(tail) > 500 {
			tail = tail[len(tail)-500:]
		}
		t.Fatalf("the collector process died on the first event: %v\n%s", err, tail)
	}
}
