package pipeline

// Native reproducer for the C04 defect fixed by "fix: low-memory event pool heartbeat never wakes waiters":
// place into pipeline/ and run: go test -vet=off -count=1 -run TestVerifReproLowMemHeartbeat ./pipeline/
//
// The engine's counterexample is a schedule in which back() broadcasts between a reader's
// eventsAvailable() check and its Cond.Wait (the broadcast is lost). This test puts the pool in
// exactly the state that schedule leaves behind - a parked waiter and free capacity - and
// checks that the heartbeat repairs it.

import (
	"testing"
	"time"
)

func TestVerifReproLowMemHeartbeat(t *testing.T) {
	p := newLowMemoryEventPool(1)
	p.wakeupInterval = 20 * time.Millisecond
	e := p.get(1)
	got := make(chan struct{})
	go func() {
		p.get(1) // over capacity: parks in getCond.Wait
		close(got)
	}()
	for p.waiters() == 0 {
		time.Sleep(time.Millisecond)
	}
	time.Sleep(20 * time.Millisecond) // let the reader reach Wait
	// what back() does, minus the broadcast that the schedule loses
	e.reset()
	p.pools[poolIndex(e.Size)].Put(e)
	p.inUseEvents.Dec()
	select {
	case <-got:
	case <-time.After(2 * time.Second):
		t.Fatal("a reader parked on a pool with free capacity is never woken by the heartbeat")
	}
}
