package loki

// Reproducer (copy into /repo/plugin/output/loki/): one event whose timestamp field is not in unix
// nanoseconds made send() give up before anything was sent, and out() then reported the batch as done
// ("skip retries"): every other event of the batch was committed without having been sent.

import (
	"io"
	"net/http"
	"net/http/httptest"
	"strings"
	"testing"

	"github.com/ozontech/file.d/pipeline"
	"github.com/ozontech/file.d/test"
	insaneJSON "github.com/ozontech/insane-json"
)

func TestVerifLokiBadTimestampDropsOnlyThatEvent(t *testing.T) {
	var bodies []string
	srv := httptest.NewServer(http.HandlerFunc(func(w http.ResponseWriter, r *http.Request) {
		b, _ := io.ReadAll(r.Body)
		bodies = append(bodies, string(b))
		w.WriteHeader(204)
	}))
	defer srv.Close()
	p := &Plugin{}
	config := &Config{Address: srv.URL, BatchSize: "4", MessageField: "message", TimestampField: "ts"}
	test.NewConfig(config, map[string]int{"gomaxprocs": 1})
	p.Start(config, test.NewEmptyOutputPluginParams())
	defer p.Stop()
	var evs []*pipeline.Event
	for _, d := range []string{`{"ts":"1000","message":"first"}`, `{"ts":"2024-01-01T00:00:00Z","message":"bad"}`, `{"ts":"2000","message":"third"}`} {
		root := insaneJSON.Spawn()
		_ = root.DecodeString(d)
		evs = append(evs, &pipeline.Event{Root: root})
	}
	var wd pipeline.WorkerData
	if err := p.out(&wd, pipeline.NewPreparedBatch(evs)); err != nil {
		t.Fatalf("out: %v", err)
	}
	all := strings.Join(bodies, "")
	if !strings.Contains(all, `"first"`) || !strings.Contains(all, `"third"`) {
		t.Fatalf("the batch was reported as done but its deliverable events were never sent: bodies %q", bodies)
	}
}
