package k8s

// Reproducer (copy into /repo/plugin/input/k8s/): a partial chunk of a container log line whose text
// ends with a literal backslash followed by the letter n (escaped: \\n) was taken for the end of the
// line, because only the last two bytes of the escaped fragment were compared with \n. The line is
// then passed on in two pieces instead of being joined.

import (
	"testing"

	"github.com/ozontech/file.d/logger"
	"github.com/ozontech/file.d/pipeline"
	"github.com/ozontech/file.d/plugin/input/k8s/meta"
	"github.com/ozontech/file.d/test"
	insaneJSON "github.com/ozontech/insane-json"
)

func TestVerifK8sChunkEndingWithEscapedBackslashN(t *testing.T) {
	meta.EnableGatherer(logger.Instance)
	defer meta.DisableGatherer()
	plugin := &MultilineAction{}
	plugin.Start(&Config{SplitEventSize: predictionLookahead * 4}, test.NewEmptyActionPluginParams())
	item := &meta.MetaItem{Namespace: "sre", PodName: "p-1111111111-trtrq", ContainerName: "c", ContainerID: "4e0301b633eaa2bfdcafdeba59ba0c72a3815911a6a820bf273534b0f32d98e0"}
	filename := getLogFilename("k8s", item)
	meta.PutMeta(getPodInfo(item, true))

	root := insaneJSON.Spawn()
	defer insaneJSON.Release(root)
	var results []pipeline.ActionResult
	// one line `open C:\new_dir and more` + newline, cut by the runtime right after `C:\n`
	for _, part := range []string{`{"log":"open C:\\n"}`, `{"log":"ew_dir and more\n"}`} {
		if err := root.DecodeString(part); err != nil {
			t.Fatal(err)
		}
		event := &pipeline.Event{Root: root, SourceName: filename, Size: len(part)}
		pipeline.CreateNestedField(event.Root, []string{"k8s_pod"}).MutateToString(string(item.PodName))
		pipeline.CreateNestedField(event.Root, []string{"k8s_namespace"}).MutateToString(string(item.Namespace))
		pipeline.CreateNestedField(event.Root, []string{"k8s_container"}).MutateToString(string(item.ContainerName))
		pipeline.CreateNestedField(event.Root, []string{"k8s_container_id"}).MutateToString(string(item.ContainerID))
		results = append(results, plugin.Do(event))
	}
	if results[0] != pipeline.ActionCollapse || results[1] != pipeline.ActionPass {
		t.Fatalf("the partial chunk was not joined with the rest of its line: action results %v", results)
	}
	if got := root.Dig("log").AsString(); got != "open C:\\new_dir and more\n" {
		t.Fatalf("joined line is %q", got)
	}
}
