package gelf

// Reproducer (copy into /repo/plugin/output/gelf/): the gelf output formats the events of a batch in
// place before sending. When the send fails and the batch is sent again (RetriableBatcher calls out()
// with the same batch), the already formatted events are formatted a second time: every field gets a
// second underscore, version/host/short_message become extra fields and defaults are added again.
// Known finding (not repaired), C19 gelfEnvelopes/assert/resent-payload-is-the-same-envelopes.

import (
	"io"
	"net"
	"strings"
	"testing"

	"github.com/ozontech/file.d/pipeline"
	"github.com/ozontech/file.d/test"
	insaneJSON "github.com/ozontech/insane-json"
)

func TestVerifGelfRetryFormatsTwice(t *testing.T) {
	// reserve a port, keep it closed for the first attempt
	l, err := net.Listen("tcp", "127.0.0.1:0")
	if err != nil {
		t.Fatal(err)
	}
	addr := l.Addr().String()
	l.Close()

	p := &Plugin{}
	config := &Config{Endpoint: addr, BatchSize: "4", HostField: "host", ShortMessageField: "message"}
	test.NewConfig(config, map[string]int{"gomaxprocs": 1})
	p.Start(config, test.NewEmptyOutputPluginParams())
	defer p.Stop()

	root := insaneJSON.Spawn()
	_ = root.DecodeString(`{"host":"h1","message":"m1","k":"v"}`)
	batch := pipeline.NewPreparedBatch([]*pipeline.Event{{Root: root}})
	var wd pipeline.WorkerData
	if err := p.out(&wd, batch); err == nil {
		t.Fatal("first attempt was expected to fail (nothing listens)")
	}

	l, err = net.Listen("tcp", addr)
	if err != nil {
		t.Skip("port was taken meanwhile")
	}
	defer l.Close()
	got := make(chan string, 1)
	go func() {
		c, err := l.Accept()
		if err != nil {
			got <- ""
			return
		}
		buf := make([]byte, 4096)
		n, _ := c.Read(buf)
		c.Close()
		got <- string(buf[:n])
	}()
	if err := p.out(&wd, batch); err != nil { // the retry of the same batch
		t.Fatal(err)
	}
	if w, ok := wd.(io.Closer); ok {
		_ = w
	}
	payload := <-got
	if !strings.Contains(payload, `"host":"h1"`) || !strings.Contains(payload, `"short_message":"m1"`) || strings.Contains(payload, `"__k"`) {
		t.Fatalf("resent payload is not the GELF envelope of the event: %q", payload)
	}
}
