package pipeline

// Native reproducer for the defect fixed by "fix: stream time-out check panics when the stream has just got an event":
// place into pipeline/ and run: go test -vet=off -count=1 -run TestVerifReproTryUnblock ./pipeline/
//
// The engine's counterexample (C02/C04 harness timeoutVsPut) is the schedule
//   heartbeat: copies the list of blocked streams (the stream is still listed)
//   reader:    stream.put(e3)              -> signals the processor
//   processor: blockGet wakes, resetBlocked, takes e3 (awaySeq = 3), starts the actions
//   heartbeat: tryUnblock(stream)          -> blockTime is older than event_timeout, first == nil,
//                                             awaySeq (3) != commitSeq (2)  -> logger.Panicf
// This test builds the stream state of the last step and calls the real tryUnblock.

import (
	"testing"
	"time"
)

func TestVerifReproTryUnblock(t *testing.T) {
	sr := newStreamer(100 * time.Millisecond)
	st := newStream("s", 1, sr)
	st.isAttached = true
	st.blockTime = time.Now().Add(-time.Second) // the processor waited longer than event_timeout ...
	st.awaySeq = 3                              // ... and has just taken event 3, which is not finalized yet
	st.commitSeq.Store(2)
	defer func() {
		if r := recover(); r != nil {
			t.Fatalf("tryUnblock panicked on a stream that is being processed: %v", r)
		}
	}()
	if st.tryUnblock() {
		t.Fatal("a time-out event was injected into a stream that is not waiting")
	}
}
