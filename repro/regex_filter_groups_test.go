package substitution

// Reproducer (copy into /repo/cfg/substitution/): the regex filter of a substitution (modify action)
// validates its group list with cfg.VerifyGroupNumbers but ignores the normalised result. That function
// stops checking at the first group 0, so a list like [0,5] for a regexp with two groups is accepted and
// kept as it is; applying the filter to a matching value then indexes the submatch table out of range.

import (
	"testing"

	"go.uber.org/zap"
)

func TestVerifRegexFilterGroupZeroWithOthers(t *testing.T) {
	ops, err := ParseSubstitution(`${f|re("(a)(b)?",-1,[0,5],"|")}`, nil, zap.NewNop())
	if err != nil {
		t.Fatalf("the specification is rejected: %v (fine, but it was accepted before)", err)
	}
	defer func() {
		if r := recover(); r != nil {
			t.Fatalf("applying the accepted filter panics: %v", r)
		}
	}()
	for _, op := range ops {
		for _, f := range op.Filters {
			src := []byte("xaby")
			f.Apply(src, append([]byte(nil), src...))
		}
	}
}
