package decoder

// Reproducer (copy into /repo/decoder/): RFC 5424 requires ']' inside a structured-data value to be
// written as '\]'. The decoder took every ']' for the end of the element, also inside the quotes, and
// rejected such a well-formed line.

import "testing"

func TestVerifSyslog5424EscapedBracketInValue(t *testing.T) {
	d, err := NewSyslogRFC5424Decoder(nil)
	if err != nil {
		t.Fatal(err)
	}
	line := []byte(`<165>1 2003-10-11T22:14:15.003Z host app 10 ID47 [ex@1 k1="3" k2="e\]f"] an event`)
	rowAny, err := d.Decode(line)
	if err != nil {
		t.Fatalf("well-formed line rejected: %v", err)
	}
	row := rowAny.(SyslogRFC5424Row)
	if got := string(row.StructuredData["ex@1"]["k2"]); got != `e\]f` {
		t.Fatalf("k2 = %q", got)
	}
	if string(row.Message) != "an event" {
		t.Fatalf("message = %q", row.Message)
	}
}
