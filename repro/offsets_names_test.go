package file

// Native reproducer for the C07 known findings (stream names the line-oriented offsets file cannot carry):
// place into plugin/input/file/ and run: go test -vet=off -count=1 -run TestVerifReproOffsetsNames ./plugin/input/file/

import (
	"path/filepath"
	"sync"
	"testing"

	"github.com/ozontech/file.d/pipeline"
)

func TestVerifReproOffsetsNames(t *testing.T) {
	for _, stream := range []string{"", "a\nb"} {
		dir := t.TempDir()
		db := newOffsetDB(filepath.Join(dir, "offsets.yaml"), filepath.Join(dir, "offsets.tmp"))
		job := &Job{sourceID: 1, filename: "f", inode: 10, mu: &sync.Mutex{}}
		job.offsets.Set(pipeline.StreamName(stream), 5)
		db.save(map[pipeline.SourceID]*Job{1: job}, &sync.RWMutex{})
		got, err := db.load()
		if err != nil || got[1] == nil || got[1].streams[pipeline.StreamName(stream)] != 5 {
			t.Errorf("stream name %q: saved offsets do not load back: %v", stream, err)
		}
	}
}
