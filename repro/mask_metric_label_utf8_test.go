package mask

// Reproducer (copy into /repo/plugin/action/mask/): the mask action labels its applied-metric with
// values taken from the event (applied_metric_labels). prometheus' WithLabelValues panics on a label
// value that is not valid UTF-8, and nothing recovers the panic on the processor goroutine: one log
// line with a broken byte in the labelled field takes the collector down. The test runs the
// pipeline in a child process and expects it to survive.

import (
	"os"
	"os/exec"
	"testing"
	"time"

	"github.com/ozontech/file.d/pipeline"
	"github.com/ozontech/file.d/test"
)

func TestVerifMaskMetricLabelInvalidUTF8(t *testing.T) {
	if os.Getenv("VERIF_CHILD") == "1" {
		config := test.NewConfig(&Config{
			Masks:               []Mask{{Re: `(\d{4})`, Groups: []int{1}}},
			AppliedMetricName:   "verif_mask_applied",
			AppliedMetricLabels: []string{"service"},
		}, nil)
		p, input, output := test.NewPipelineMock(test.NewActionPluginStaticInfo(factory, config, pipeline.MatchModeAnd, nil, false))
		done := make(chan struct{}, 1)
		output.SetOutFn(func(e *pipeline.Event) { done <- struct{}{} })
		input.In(0, "test.log", test.NewOffset(0), []byte("{\"service\":\"pay\xffments\",\"card\":\"1234\"}"))
		select {
		case <-done:
		case <-time.After(3 * time.Second):
		}
		p.Stop()
		return
	}
	cmd := exec.Command(os.Args[0], "-test.run", "TestVerifMaskMetricLabelInvalidUTF8")
	cmd.Env = append(os.Environ(), "VERIF_CHILD=1")
	out, err := cmd.CombinedOutput()
	if err != nil {
		tail := string(out)
		if len(tail) > 600 {
			tail = tail[len(tail)-600:]
		}
		t.Fatalf("the collector process died on an event with invalid UTF-8 in a labelled field: %v\n%s", err, tail)
	}
}
