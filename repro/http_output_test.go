package http

// Reproducers (copy into /repo/plugin/output/http/):
//  - raw encoder: an event without the field wiped the lines of the events before it in the batch;
//  - split_batch: an event that is too large on its own ended the split, the rest of the batch was
//    never sent although the batch is then committed.
// Fail before the two "fix:" commits for the http output, pass after.

import (
	"io"
	"net/http"
	"net/http/httptest"
	"strings"
	"sync"
	"testing"

	"github.com/ozontech/file.d/pipeline"
	"github.com/ozontech/file.d/test"
	insaneJSON "github.com/ozontech/insane-json"
)

func verifServer(t *testing.T) (*httptest.Server, func() []string) {
	var mu sync.Mutex
	var accepted []string
	srv := httptest.NewServer(http.HandlerFunc(func(w http.ResponseWriter, r *http.Request) {
		b, _ := io.ReadAll(r.Body)
		if strings.Contains(string(b), `"big":true`) {
			w.WriteHeader(http.StatusRequestEntityTooLarge)
			return
		}
		mu.Lock()
		accepted = append(accepted, string(b))
		mu.Unlock()
	}))
	return srv, func() []string { mu.Lock(); defer mu.Unlock(); return append([]string(nil), accepted...) }
}

func verifBatch(docs ...string) *pipeline.Batch {
	var evs []*pipeline.Event
	for _, d := range docs {
		root := insaneJSON.Spawn()
		_ = root.DecodeString(d)
		evs = append(evs, &pipeline.Event{Root: root, Size: len(d)})
	}
	return pipeline.NewPreparedBatch(evs)
}

func TestVerifRawEncoderMissingField(t *testing.T) {
	srv, accepted := verifServer(t)
	defer srv.Close()
	p := &Plugin{}
	config := &Config{Endpoints: []string{srv.URL}, BatchSize: "4", Encoding: EncodingConfig{Type: "raw"}}
	test.NewConfig(config, map[string]int{"gomaxprocs": 1})
	p.Start(config, test.NewEmptyOutputPluginParams())
	defer p.Stop()
	var wd pipeline.WorkerData
	if err := p.out(&wd, verifBatch(`{"message":"first"}`, `{"message":"second"}`, `{"other":1}`)); err != nil {
		t.Fatal(err)
	}
	body := strings.Join(accepted(), "")
	if !strings.Contains(body, `"first"`) || !strings.Contains(body, `"second"`) {
		t.Fatalf("events of the batch are missing from the request body: %q", body)
	}
}

func TestVerifSplitBatchOversizeEvent(t *testing.T) {
	srv, accepted := verifServer(t)
	defer srv.Close()
	p := &Plugin{}
	config := &Config{Endpoints: []string{srv.URL}, BatchSize: "4", SplitBatch: true}
	test.NewConfig(config, map[string]int{"gomaxprocs": 1})
	p.Start(config, test.NewEmptyOutputPluginParams())
	defer p.Stop()
	var wd pipeline.WorkerData
	err := p.out(&wd, verifBatch(`{"n":0,"big":true}`, `{"n":1}`, `{"n":2}`))
	if err != nil {
		t.Skipf("batch is retried as a whole: %v", err)
	}
	body := strings.Join(accepted(), "")
	if !strings.Contains(body, `{"n":1}`) || !strings.Contains(body, `{"n":2}`) {
		t.Fatalf("batch treated as done, but deliverable events were never sent: accepted %q", body)
	}
}
