package remove_fields

// Native reproducer for the C18 known finding (key order of survivors):
// place into plugin/action/remove_fields/ and run: go test -vet=off -count=1 -run TestVerifReproOrder ./plugin/action/remove_fields/

import (
	"testing"

	"github.com/ozontech/file.d/pipeline"
	insaneJSON "github.com/ozontech/insane-json"
)

func TestVerifReproOrder(t *testing.T) {
	p := &Plugin{}
	p.Start(&Config{Fields: []string{"a"}}, nil)
	root := insaneJSON.Spawn()
	_ = root.DecodeString(`{"a":1,"b":"s","c":true}`)
	p.Do(&pipeline.Event{Root: root})
	if got := root.EncodeToString(); got != `{"b":"s","c":true}` {
		t.Fatalf("survivors re-ordered: %s", got)
	}
}
