package pipeline_test

// Reproducer (copy into /repo/pipeline/): in spread mode (what the kafka input sets up: UseSpread +
// DisableStreams) the records of ONE partition are distributed over the processors, and the commit
// notifications reach the input in completion order. Kafka keeps the highest marked offset, so the
// offset of a slow earlier record is passed while it is still unfinished: a restart from the committed
// offset skips it. Known finding (not repaired), C10 spread/assert/kafka-mark-does-not-pass-an-unfinished-record.

import (
	"sync"
	"testing"
	"time"

	"github.com/ozontech/file.d/pipeline"
	"github.com/ozontech/file.d/test"
)

type verifSlowAction struct{}

func (verifSlowAction) Start(pipeline.AnyConfig, *pipeline.ActionPluginParams) {}
func (verifSlowAction) Stop()                                                   {}
func (verifSlowAction) Do(e *pipeline.Event) pipeline.ActionResult {
	if e.Root.Dig("slow") != nil {
		time.Sleep(300 * time.Millisecond)
	}
	return pipeline.ActionPass
}

func TestVerifSpreadCommitsOutOfPartitionOrder(t *testing.T) {
	factory := func() (pipeline.AnyPlugin, pipeline.AnyConfig) { return verifSlowAction{}, nil }
	p, input, _ := test.NewPipelineMock([]*pipeline.ActionPluginStaticInfo{{PluginStaticInfo: test.NewPluginStaticInfo(factory, nil), MatchMode: pipeline.MatchModeAnd}}, "passive", "parallel")
	p.UseSpread()
	p.DisableStreams()
	p.Start()
	defer p.Stop()

	var mu sync.Mutex
	var commits []int64
	input.SetCommitFn(func(e *pipeline.Event) {
		mu.Lock()
		commits = append(commits, e.Offset)
		mu.Unlock()
	})
	wait := func(n int) {
		deadline := time.Now().Add(3 * time.Second)
		for time.Now().Before(deadline) {
			mu.Lock()
			k := len(commits)
			mu.Unlock()
			if k >= n {
				return
			}
			time.Sleep(5 * time.Millisecond)
		}
	}
	// warm-up: recycled event objects keep their last sequence id, which selects the processor
	for i := int64(1); i <= 3; i++ {
		input.In(7, "topic", test.NewOffset(i), []byte(`{"k":1}`))
		wait(int(i))
	}
	// two records of the same partition: the earlier one is slow
	for attempt := 0; attempt < 20; attempt++ {
		base := int64(100 + 10*attempt)
		mu.Lock()
		before := len(commits)
		mu.Unlock()
		input.In(7, "topic", test.NewOffset(base), []byte(`{"slow":true}`))
		input.In(7, "topic", test.NewOffset(base+1), []byte(`{"k":1}`))
		wait(before + 2)
		mu.Lock()
		a, b := commits[before], commits[before+1]
		mu.Unlock()
		if a > b {
			t.Fatalf("offset %d was committed while the earlier record %d of the same partition was still unfinished", a, b)
		}
	}
	t.Log("records happened to stay on one processor in every attempt")
}
