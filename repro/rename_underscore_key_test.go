package rename

// Reproducer (copy into /repo/plugin/action/rename/): the key "_" (the underscore escape with nothing
// behind it) is turned into an empty path by Start; an empty path addresses the event root, which Do
// then moves under itself: the event tree becomes cyclic and the first encoding of the event never
// terminates (the processor hangs). Fails (time-out) before "fix: rename ignores a key that is only
// the underscore escape", passes after.

import (
	"testing"
	"time"

	"github.com/ozontech/file.d/pipeline"
	insaneJSON "github.com/ozontech/insane-json"
)

func TestVerifRenameBareUnderscoreKey(t *testing.T) {
	root := insaneJSON.Spawn()
	_ = root.DecodeString(`{"a":{"b":1},"c":2}`)
	p := &Plugin{}
	c := Config{"_", "x"}
	p.Start(&c, nil)
	done := make(chan string, 1)
	go func() {
		p.Do(&pipeline.Event{Root: root})
		done <- root.EncodeToString()
	}()
	select {
	case s := <-done:
		if s != `{"a":{"b":1},"c":2}` {
			t.Fatalf("event changed: %s", s)
		}
	case <-time.After(3 * time.Second):
		t.Fatal("processing the event does not terminate")
	}
}
