package k8s

// Reproducer (copy into /repo/plugin/input/k8s/): with max_event_size and cut_off_event_by_limit the
// k8s multi-line action cuts the (JSON-escaped) log fragment at an arbitrary byte; a cut inside a
// \uXXXX escape leaves the event's log field an invalid JSON string.

import (
	"encoding/json"
	"testing"

	"github.com/ozontech/file.d/logger"
	"github.com/ozontech/file.d/pipeline"
	"github.com/ozontech/file.d/plugin/input/k8s/meta"
	"github.com/ozontech/file.d/test"
	insaneJSON "github.com/ozontech/insane-json"
)

func TestVerifK8sCutOffInsideEscape(t *testing.T) {
	meta.EnableGatherer(logger.Instance)
	defer meta.DisableGatherer()
	plugin := &MultilineAction{}
	params := test.NewEmptyActionPluginParams()
	params.PipelineSettings = &pipeline.Settings{MaxEventSize: 8, CutOffEventByLimit: true}
	plugin.Start(&Config{SplitEventSize: predictionLookahead * 4}, params)
	item := &meta.MetaItem{Namespace: "sre", PodName: "p-1111111111-trtrq", ContainerName: "c", ContainerID: "4e0301b633eaa2bfdcafdeba59ba0c72a3815911a6a820bf273534b0f32d98e0"}
	filename := getLogFilename("k8s", item)
	meta.PutMeta(getPodInfo(item, true))

	root := insaneJSON.Spawn()
	defer insaneJSON.Release(root)
	var res pipeline.ActionResult
	for _, part := range []string{`{"log":"\u00e9z"}`, `{"log":"a"}`, `{"log":"a\n"}`} {
		if err := root.DecodeString(part); err != nil {
			t.Fatal(err)
		}
		event := &pipeline.Event{Root: root, SourceName: filename, Size: len(part)}
		pipeline.CreateNestedField(event.Root, []string{"k8s_pod"}).MutateToString(string(item.PodName))
		pipeline.CreateNestedField(event.Root, []string{"k8s_namespace"}).MutateToString(string(item.Namespace))
		pipeline.CreateNestedField(event.Root, []string{"k8s_container"}).MutateToString(string(item.ContainerName))
		pipeline.CreateNestedField(event.Root, []string{"k8s_container_id"}).MutateToString(string(item.ContainerID))
		res = plugin.Do(event)
	}
	if res != pipeline.ActionPass {
		t.Skipf("last chunk result %v", res)
	}
	out := root.EncodeToString()
	if !json.Valid([]byte(out)) {
		t.Fatalf("event is not valid JSON after the cut: %s", out)
	}
	if false {
	}
}
