package pipeline

// Native reproducer for the known finding "dead-queued events are committed after later events":
// place into pipeline/ and run: go test -vet=off -count=1 -run TestVerifReproDeadQueueOrder ./pipeline/

import (
	"context"
	"errors"
	"sync"
	"testing"
	"time"

	"github.com/ozontech/file.d/metric"
	"github.com/prometheus/client_golang/prometheus"
)

type reproCtl struct {
	mu    sync.Mutex
	order []uint64
	ch    chan uint64
}

func (c *reproCtl) Commit(e *Event) {
	c.mu.Lock()
	c.order = append(c.order, e.SeqID)
	c.mu.Unlock()
	c.ch <- e.SeqID
}
func (c *reproCtl) Error(string) {}

type reproDQ struct{ b *Batcher }

func (o *reproDQ) Start(AnyConfig, *OutputPluginParams) {}
func (o *reproDQ) Stop()                                 {}
func (o *reproDQ) Out(e *Event)                          { o.b.Add(e) }

func TestVerifReproDeadQueueOrder(t *testing.T) {
	ctl := &reproCtl{ch: make(chan uint64, 4)}
	mctl := metric.NewCtl("verif", prometheus.NewRegistry(), time.Minute, 0)
	gate := make(chan struct{})
	dq := &reproDQ{}
	dq.b = NewBatcher(BatcherOptions{Controller: ctl, Workers: 1, BatchSizeCount: 1, FlushTimeout: 50 * time.Millisecond, MetricCtl: mctl,
		OutFn: func(_ *WorkerData, b *Batch) { <-gate }}) // the dead-queue sink is slow
	dq.b.Start(context.Background())
	router := NewRouter()
	router.deadQueue = dq
	rb := NewRetriableBatcher(&BatcherOptions{Controller: ctl, Workers: 1, BatchSizeCount: 1, FlushTimeout: 50 * time.Millisecond, MetricCtl: metric.NewCtl("verif2", prometheus.NewRegistry(), time.Minute, 0)},
		func(_ *WorkerData, b *Batch) error {
			if b.events[0].SeqID == 1 {
				return errors.New("sink rejects event 1")
			}
			return nil
		},
		BackoffOpts{MinRetention: time.Millisecond, Multiplier: 2, AttemptNum: 0, IsDeadQueueAvailable: true},
		func(err error, events []*Event) {
			for _, e := range events {
				router.Fail(e)
			}
		})
	rb.Start(context.Background())
	rb.Add(&Event{SeqID: 1, Size: 1}) // fails, is routed to the dead queue
	rb.Add(&Event{SeqID: 2, Size: 1}) // read later, delivered by the main output
	first := <-ctl.ch
	close(gate)
	second := <-ctl.ch
	if first != 1 || second != 2 {
		t.Fatalf("commit notifications arrived as [%d %d]: the event read later is committed first", first, second)
	}
}
