package join

// Reproducer (copy into /repo/plugin/action/join/): a stream time-out event is sent to the action
// that handled the last event (here: discard, which dropped a debug line) instead of the action that
// holds a run (join). The held start line is then never flushed by the time-out; an action that
// dereferences event.Root (almost all of them) would crash the collector instead.
// Fails before "fix: deliver stream time-out to the action that holds events", passes after.

import (
	"testing"
	"time"

	"go.uber.org/atomic"

	"github.com/ozontech/file.d/cfg"
	"github.com/ozontech/file.d/pipeline"
	"github.com/ozontech/file.d/test"
)

// what the discard action does
type verifDrop struct{}
type verifDropConfig struct{}

func (verifDrop) Start(pipeline.AnyConfig, *pipeline.ActionPluginParams) {}
func (verifDrop) Stop()                                                   {}
func (verifDrop) Do(*pipeline.Event) pipeline.ActionResult                { return pipeline.ActionDiscard }
func verifDropFactory() (pipeline.AnyPlugin, pipeline.AnyConfig)          { return verifDrop{}, &verifDropConfig{} }

func TestVerifTimeoutReachesTheHoldingAction(t *testing.T) {
	joinCfg := test.NewConfig(&Config{
		Field:    "log",
		Start:    cfg.Regexp(`/^start/`),
		Continue: cfg.Regexp(`/^cont/`),
	}, nil)
	actions := []*pipeline.ActionPluginStaticInfo{
		{
			PluginStaticInfo: test.NewPluginStaticInfo(verifDropFactory, &verifDropConfig{}),
			MatchMode:        pipeline.MatchModeAnd,
			MatchConditions:  pipeline.MatchConditions{{Field: []string{"level"}, Values: []string{"debug"}}},
		},
		{
			PluginStaticInfo: test.NewPluginStaticInfo(factory, joinCfg),
			MatchMode:        pipeline.MatchModeAnd,
		},
	}
	p, input, output := test.NewPipelineMock(actions, "short_event_timeout")
	out := atomic.Int32{}
	output.SetOutFn(func(e *pipeline.Event) { out.Inc() })

	input.In(0, "test.log", test.NewOffset(1), []byte(`{"log":"start of a run","level":"info"}`))
	input.In(0, "test.log", test.NewOffset(2), []byte(`{"log":"noise","level":"debug"}`)) // dropped by the first action
	// nothing else arrives: the stream time-out (10 ms) must flush the held start line
	deadline := time.Now().Add(3 * time.Second)
	for out.Load() == 0 && time.Now().Before(deadline) {
		time.Sleep(20 * time.Millisecond)
	}
	got := out.Load()
	p.Stop()
	if got != 1 {
		t.Fatalf("the held line was not flushed by the stream time-out: %d events reached the output", got)
	}
}
