package splunk

// Reproducer (copy into /repo/plugin/output/splunk/): copy_fields whose source value is an object (or
// an array) was attached with MutateToNode; the children keep their parent pointers into the "event"
// subtree and the encoder stops early: the envelope went out without the copied field.

import (
	"io"
	"net/http"
	"net/http/httptest"
	"strings"
	"testing"

	"github.com/ozontech/file.d/pipeline"
	"github.com/ozontech/file.d/test"
	insaneJSON "github.com/ozontech/insane-json"
)

func TestVerifSplunkCopyObjectField(t *testing.T) {
	var bodies []string
	srv := httptest.NewServer(http.HandlerFunc(func(w http.ResponseWriter, r *http.Request) {
		b, _ := io.ReadAll(r.Body)
		bodies = append(bodies, string(b))
		_, _ = w.Write([]byte(`{"code":0}`))
	}))
	defer srv.Close()
	p := &Plugin{}
	config := &Config{Endpoint: srv.URL, Token: "t", BatchSize: "4", CopyFields: []CopyField{{From: "meta", To: "fields.meta"}}}
	test.NewConfig(config, map[string]int{"gomaxprocs": 1})
	p.Start(config, test.NewEmptyOutputPluginParams())
	defer p.Stop()
	root := insaneJSON.Spawn()
	_ = root.DecodeString(`{"id":0,"meta":{"a":{"b":1},"c":[2]}}`)
	var wd pipeline.WorkerData
	if err := p.out(&wd, pipeline.NewPreparedBatch([]*pipeline.Event{{Root: root}})); err != nil {
		t.Fatal(err)
	}
	want := `{"event":{"id":0,"meta":{"a":{"b":1},"c":[2]}},"fields":{"meta":{"a":{"b":1},"c":[2]}}}`
	if got := strings.Join(bodies, ""); got != want {
		t.Fatalf("envelope is %s, want %s", got, want)
	}
}
