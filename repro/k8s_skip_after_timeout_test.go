package k8s

// Reproducer (copy into /repo/plugin/input/k8s/): with max_event_size, the partial chunks of an oversize
// line switch the action to "skip until the end of the line". When the stream times out before that end
// arrives (the container died in the middle of the line) the buffer is reset but the skip flag is not:
// the next, complete and short line of the stream is discarded.

import (
	"testing"

	"github.com/ozontech/file.d/logger"
	"github.com/ozontech/file.d/pipeline"
	"github.com/ozontech/file.d/plugin/input/k8s/meta"
	"github.com/ozontech/file.d/test"
	insaneJSON "github.com/ozontech/insane-json"
)

func TestVerifK8sLineAfterTimeoutOfOversizeLine(t *testing.T) {
	meta.EnableGatherer(logger.Instance)
	defer meta.DisableGatherer()
	plugin := &MultilineAction{}
	params := test.NewEmptyActionPluginParams()
	params.PipelineSettings = &pipeline.Settings{MaxEventSize: 8}
	plugin.Start(&Config{SplitEventSize: predictionLookahead * 4}, params)
	item := &meta.MetaItem{Namespace: "sre", PodName: "p-1111111111-trtrq", ContainerName: "c", ContainerID: "4e0301b633eaa2bfdcafdeba59ba0c72a3815911a6a820bf273534b0f32d98e0"}
	filename := getLogFilename("k8s", item)
	meta.PutMeta(getPodInfo(item, true))
	root := insaneJSON.Spawn()
	defer insaneJSON.Release(root)
	do := func(part string) pipeline.ActionResult {
		if err := root.DecodeString(part); err != nil {
			t.Fatal(err)
		}
		event := &pipeline.Event{Root: root, SourceName: filename, Size: len(part)}
		pipeline.CreateNestedField(event.Root, []string{"k8s_pod"}).MutateToString(string(item.PodName))
		pipeline.CreateNestedField(event.Root, []string{"k8s_namespace"}).MutateToString(string(item.Namespace))
		pipeline.CreateNestedField(event.Root, []string{"k8s_container"}).MutateToString(string(item.ContainerName))
		pipeline.CreateNestedField(event.Root, []string{"k8s_container_id"}).MutateToString(string(item.ContainerID))
		return plugin.Do(event)
	}
	if r := do(`{"log":"a very long partial chunk"}`); r != pipeline.ActionCollapse {
		t.Fatalf("partial chunk: %v", r)
	}
	to := &pipeline.Event{}
	to.SetTimeoutKind()
	plugin.Do(to) // the stream falls silent in the middle of the line
	if r := do(`{"log":"ok\n"}`); r != pipeline.ActionPass {
		t.Fatalf("a complete short line after the time-out was not passed on: action result %v", r)
	}
}
