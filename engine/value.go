package main

// Run-time values of the symbolic interpreter: concrete structure, symbolic scalars.

import (
	"fmt"
	"go/types"
	"strings"

	"golang.org/x/tools/go/ssa"
)

// Value is one of:
//   *Term                      bool and all integer kinds (width from the static type)
//   float64                    floats (concrete only)
//   complex128
//   Str                        strings (bytes are *Term values, length concrete)
//   Slice                      slices
//   Array                      arrays (value semantics: copied on load/store)
//   Struct                     structs (value semantics)
//   *Value                     pointers
//   *SymRef                    pointer to arr[idx] with symbolic idx (scalar elements only)
//   Iface                      interfaces (T==nil: nil interface)
//   *Map, *Chan
//   *ssa.Function, *Closure, *ssa.Builtin, nil (nil func)
//   Tuple
//   *MapIter, *StrIter
//   UnsafePtr                  unsafe.Pointer wrapping a *Value (or nil)
//   *Native                    opaque native handle (regexp etc.)
type Value interface{}

type Str struct{ b []Value } // immutable by convention; may alias a byte slice through unsafe casts

type Slice struct {
	v []Value // Go slice semantics (len, cap, aliasing); nil == nil slice
}

type Array []Value
type Struct []Value
type Tuple []Value

type Iface struct {
	T types.Type
	V Value
}

type Closure struct {
	Fn  *ssa.Function
	Env []Value
}

type SymRef struct {
	elems []Value // candidate cells
	idx   *Term   // index into elems (same width as int: 64)
}

type Native struct {
	kind string
	v    interface{}
}

type StrIter struct {
	s   Str
	pos int
}

func mkStr(ts *TermStore, s string) Str {
	b := make([]Value, len(s))
	for i := 0; i < len(s); i++ {
		b[i] = ts.Const(uint64(s[i]), 8)
	}
	return Str{b}
}

// concrete returns the Go string if all bytes are concrete.
func (s Str) concrete() (string, bool) {
	var sb strings.Builder
	sb.Grow(len(s.b))
	for _, x := range s.b {
		t := x.(*Term)
		if t.op != OpConst {
			return "", false
		}
		sb.WriteByte(byte(t.k))
	}
	return sb.String(), true
}

func sizeofBasic(b *types.Basic) int {
	switch b.Kind() {
	case types.Bool, types.UntypedBool:
		return 0
	case types.Int8, types.Uint8:
		return 8
	case types.Int16, types.Uint16:
		return 16
	case types.Int32, types.Uint32, types.UntypedRune:
		return 32
	case types.Int, types.Uint, types.Int64, types.Uint64, types.Uintptr, types.UntypedInt:
		return 64
	}
	return -1
}

func isSigned(b *types.Basic) bool {
	switch b.Kind() {
	case types.Int, types.Int8, types.Int16, types.Int32, types.Int64, types.UntypedInt, types.UntypedRune:
		return true
	}
	return false
}

// zero returns the zero value of type t.
func (in *Interp) zero(t types.Type) Value {
	switch t := t.(type) {
	case *types.Basic:
		switch {
		case t.Kind() == types.Bool || t.Kind() == types.UntypedBool:
			return in.ts.ff
		case t.Info()&types.IsInteger != 0:
			return in.ts.Const(0, sizeofBasic(t))
		case t.Info()&types.IsFloat != 0:
			return float64(0)
		case t.Info()&types.IsComplex != 0:
			return complex128(0)
		case t.Info()&types.IsString != 0:
			return Str{}
		case t.Kind() == types.UnsafePointer:
			return UnsafePtr{}
		case t.Kind() == types.UntypedNil:
			return nil
		}
		panic(fmt.Sprintf("zero: basic %v", t))
	case *types.Pointer:
		return (*Value)(nil)
	case *types.Array:
		a := make(Array, t.Len())
		for i := range a {
			a[i] = in.zero(t.Elem())
		}
		return a
	case *types.Struct:
		s := make(Struct, t.NumFields())
		for i := range s {
			s[i] = in.zero(t.Field(i).Type())
		}
		return s
	case *types.Tuple:
		if t.Len() == 1 {
			return in.zero(t.At(0).Type())
		}
		s := make(Tuple, t.Len())
		for i := range s {
			s[i] = in.zero(t.At(i).Type())
		}
		return s
	case *types.Named, *types.Alias:
		return in.zero(t.Underlying())
	case *types.Interface:
		return Iface{}
	case *types.Slice:
		return Slice{}
	case *types.Map:
		return (*Map)(nil)
	case *types.Chan:
		return (*Chan)(nil)
	case *types.Signature:
		return nil
	case *types.TypeParam:
		panic("zero of type parameter")
	}
	panic(fmt.Sprintf("zero: %T %v", t, t))
}

type UnsafePtr struct {
	p Value // *Value, or other pointer-like, or nil
}

// copyVal deep-copies aggregates with value semantics.
func copyVal(v Value) Value {
	switch v := v.(type) {
	case Array:
		a := make(Array, len(v))
		for i := range v {
			a[i] = copyVal(v[i])
		}
		return a
	case Struct:
		a := make(Struct, len(v))
		for i := range v {
			a[i] = copyVal(v[i])
		}
		return a
	}
	return v
}

// store writes v into *addr preserving the identity of nested slots.
func storeVal(addr *Value, v Value) {
	switch rhs := v.(type) {
	case Struct:
		lhs, ok := (*addr).(Struct)
		if !ok || len(lhs) != len(rhs) {
			*addr = copyVal(rhs)
			return
		}
		for i := range lhs {
			storeVal(&lhs[i], rhs[i])
		}
	case Array:
		lhs, ok := (*addr).(Array)
		if !ok || len(lhs) != len(rhs) {
			*addr = copyVal(rhs)
			return
		}
		for i := range lhs {
			storeVal(&lhs[i], rhs[i])
		}
	default:
		*addr = v
	}
}

func typeName(v Value) string { return fmt.Sprintf("%T", v) }

// ---- maps ----

type mapEntry struct {
	k, v    Value
	deleted bool
}

type Map struct {
	kt, vt  types.Type
	entries []*mapEntry          // insertion order
	index   map[interface{}]*mapEntry // concrete keys
	symKeys int                  // number of live entries with symbolic keys
	n       int
}

type MapIter struct {
	m    *Map
	snap []*mapEntry
	pos  int
}

// hashKey returns a comparable Go value for concrete keys, ok=false if the key is symbolic.
func hashKey(k Value) (interface{}, bool) {
	switch k := k.(type) {
	case *Term:
		if !k.IsConst() {
			return nil, false
		}
		if k.w == 0 {
			return k.op == OpTrue, true
		}
		return [2]uint64{k.k, uint64(k.w)}, true
	case Str:
		s, ok := k.concrete()
		return s, ok
	case float64, complex128:
		return k, true
	case *Value, *Map, *Chan, *Native:
		return k, true
	case UnsafePtr:
		return hashKey(k.p)
	case Iface:
		if k.T == nil {
			return "nil-iface", true
		}
		h, ok := hashKey(k.V)
		if !ok {
			return nil, false
		}
		return fmt.Sprintf("%s|%v", k.T.String(), h), true
	case Struct:
		parts := make([]string, len(k))
		for i, f := range k {
			h, ok := hashKey(f)
			if !ok {
				return nil, false
			}
			parts[i] = fmt.Sprintf("%v", h)
		}
		return "S{" + strings.Join(parts, "\x00") + "}", true
	case Array:
		parts := make([]string, len(k))
		for i, f := range k {
			h, ok := hashKey(f)
			if !ok {
				return nil, false
			}
			parts[i] = fmt.Sprintf("%v", h)
		}
		return "A{" + strings.Join(parts, "\x00") + "}", true
	case nil:
		return "nil", true
	}
	panic(fmt.Sprintf("hashKey: unhashable %T", k))
}
