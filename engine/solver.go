package main

// One long-lived SMT solver process per worker, SMT-LIB2 over stdin/stdout.

import (
	"bufio"
	"fmt"
	"io"
	"os"
	"os/exec"
	"strconv"
	"strings"
	"time"
)

type Lit struct {
	t   *Term
	neg bool
}

type SatResult int

const (
	Unsat SatResult = iota
	Sat
	Unknown
)

func (r SatResult) String() string { return [...]string{"unsat", "sat", "unknown"}[r] }

type Solver struct {
	ts        *TermStore
	cmd       *exec.Cmd
	in        io.WriteCloser
	out       *bufio.Reader
	gen       int32
	defs      int
	qsince   int
	bin       string
	args      []string
	timeoutMs int
	dump      io.Writer
	// stats
	Queries   int
	NSat      int
	NUnsat    int
	NUnknown  int
	Errors    int
	SolveTime time.Duration
	ModelTime time.Duration
	declVars  []*Term
	sb        strings.Builder
}

func NewSolver(ts *TermStore, kind string, timeoutMs int) *Solver {
	s := &Solver{ts: ts, timeoutMs: timeoutMs}
	switch kind {
	case "", "z3":
		s.bin, s.args = "z3", []string{"-in"}
	case "z3-new":
		s.bin, s.args = "z3-new", []string{"-in"}
	case "cvc5":
		s.bin, s.args = "cvc5", []string{"--incremental", "--produce-models", "--lang=smt2", fmt.Sprintf("--tlimit-per=%d", timeoutMs)}
	default:
		panic("unknown solver " + kind)
	}
	if p := os.Getenv("GOSYM_DUMP_SMT"); p != "" {
		f, err := os.OpenFile(p, os.O_CREATE|os.O_WRONLY|os.O_APPEND, 0o644)
		if err == nil {
			s.dump = f
		}
	}
	s.start()
	return s
}

func (s *Solver) start() {
	s.gen++
	s.defs = 0
	s.qsince = 0
	s.declVars = nil
	s.cmd = exec.Command(s.bin, s.args...)
	var err error
	s.in, err = s.cmd.StdinPipe()
	if err != nil {
		panic(err)
	}
	o, err := s.cmd.StdoutPipe()
	if err != nil {
		panic(err)
	}
	s.cmd.Stderr = os.Stderr
	s.out = bufio.NewReaderSize(o, 1<<16)
	if err := s.cmd.Start(); err != nil {
		panic(fmt.Sprintf("cannot start solver %s: %v", s.bin, err))
	}
	s.send("(set-option :print-success false)\n(set-option :produce-models true)\n(set-logic QF_BV)\n")
	if s.bin != "cvc5" {
		s.send(fmt.Sprintf("(set-option :timeout %d)\n", s.timeoutMs))
	}
}

func (s *Solver) Close() {
	if s.cmd != nil {
		s.in.Close()
		s.cmd.Process.Kill()
		s.cmd.Wait()
		s.cmd = nil
	}
}

// softReset clears the solver state (accumulated bit-blasted terms make
// model construction slow) without paying for a new process.
func (s *Solver) softReset() {
	if s.bin == "cvc5" {
		s.restart()
		return
	}
	s.gen++
	s.defs = 0
	s.qsince = 0
	s.declVars = nil
	s.send("(reset)\n(set-option :print-success false)\n(set-option :produce-models true)\n(set-logic QF_BV)\n")
	s.send(fmt.Sprintf("(set-option :timeout %d)\n", s.timeoutMs))
}

func (s *Solver) restart() {
	s.Close()
	s.start()
}

func (s *Solver) send(txt string) {
	if s.dump != nil {
		io.WriteString(s.dump, txt)
	}
	if _, err := io.WriteString(s.in, txt); err != nil {
		panic(fmt.Sprintf("solver write: %v", err))
	}
}

// define makes sure t (and everything below it) is known to the solver.
func (s *Solver) define(t *Term) {
	if t == nil || t.IsConst() || t.gen == s.gen {
		return
	}
	// iterative post-order to avoid deep recursion on long ite chains
	type fr struct {
		t *Term
		i int
	}
	stack := []fr{{t, 0}}
	for len(stack) > 0 {
		f := &stack[len(stack)-1]
		kids := [3]*Term{f.t.a, f.t.b, f.t.c}
		pushed := false
		for f.i < 3 {
			k := kids[f.i]
			f.i++
			if k != nil && !k.IsConst() && k.gen != s.gen {
				stack = append(stack, fr{k, 0})
				pushed = true
				break
			}
		}
		if pushed {
			continue
		}
		x := f.t
		stack = stack[:len(stack)-1]
		if x.gen == s.gen {
			continue
		}
		x.gen = s.gen
		s.defs++
		if x.op == OpVar || x.op == OpBVar {
			fmt.Fprintf(&s.sb, "(declare-const %s %s)\n", x.ref(), x.sort())
			s.declVars = append(s.declVars, x)
		} else {
			fmt.Fprintf(&s.sb, "(define-fun %s () %s %s)\n", x.ref(), x.sort(), x.body())
		}
	}
}

// Check decides satisfiability of the conjunction of lits. With wantModel the
// model (values of all declared variables) is returned on sat.
func (s *Solver) Check(lits []Lit, wantModel bool) (SatResult, map[string]uint64) {
	if s.defs > 150000 || s.qsince > 100 {
		s.softReset()
	}
	s.sb.Reset()
	for _, l := range lits {
		s.define(l.t)
	}
	s.sb.WriteString("(check-sat-assuming (")
	n := 0
	for _, l := range lits {
		if l.t.op == OpTrue && !l.neg || l.t.op == OpFalse && l.neg {
			continue
		}
		if l.t.op == OpFalse && !l.neg || l.t.op == OpTrue && l.neg {
			return Unsat, nil
		}
		if l.neg {
			fmt.Fprintf(&s.sb, "(not %s) ", l.t.ref())
		} else {
			s.sb.WriteString(l.t.ref())
			s.sb.WriteString(" ")
		}
		n++
	}
	s.sb.WriteString("))\n")
	if n == 0 {
		// nothing left to assume (cvc5 rejects an empty list)
		txt := s.sb.String()
		txt = txt[:len(txt)-len("(check-sat-assuming ())\n")] + "(check-sat)\n"
		s.sb.Reset()
		s.sb.WriteString(txt)
	}
	s.Queries++
	s.qsince++
	t0 := time.Now()
	s.send(s.sb.String())
	line := s.readLine()
	dt := time.Since(t0)
	s.SolveTime += dt
	if dt > 300*time.Millisecond && os.Getenv("GOSYM_SLOW") != "" {
		fmt.Fprintf(os.Stderr, "gosym: slow query %.2fs (%d lits, %d defs since reset) -> %s\n", dt.Seconds(), len(lits), s.defs, line)
		if f := os.Getenv("GOSYM_SLOW"); f != "1" {
			os.WriteFile(f, []byte(s.sb.String()), 0o644)
		}
	}
	var r SatResult
	switch line {
	case "sat":
		r = Sat
		s.NSat++
	case "unsat":
		r = Unsat
		s.NUnsat++
	case "unknown", "timeout":
		r = Unknown
		s.NUnknown++
	default:
		s.Errors++
		fmt.Fprintf(os.Stderr, "gosym: solver said %q\n", line)
		s.restart()
		return Unknown, nil
	}
	if r == Sat && wantModel {
		t1 := time.Now()
		m := s.model()
		s.ModelTime += time.Since(t1)
		return r, m
	}
	return r, nil
}

func (s *Solver) readLine() string {
	for {
		line, err := s.out.ReadString('\n')
		if err != nil {
			return "(error eof)"
		}
		line = strings.TrimSpace(line)
		if line == "" {
			continue
		}
		return line
	}
}

func (s *Solver) model() map[string]uint64 {
	m := map[string]uint64{}
	if len(s.declVars) == 0 {
		return m
	}
	var sb strings.Builder
	sb.WriteString("(get-value (")
	for _, v := range s.declVars {
		sb.WriteString(v.ref())
		sb.WriteString(" ")
	}
	sb.WriteString("))\n")
	s.send(sb.String())
	// read balanced s-expression
	depth := 0
	var txt strings.Builder
	started := false
	for {
		line, err := s.out.ReadString('\n')
		if err != nil {
			break
		}
		txt.WriteString(line)
		for _, c := range line {
			if c == '(' {
				depth++
				started = true
			} else if c == ')' {
				depth--
			}
		}
		if started && depth <= 0 {
			break
		}
	}
	toks := strings.Fields(strings.NewReplacer("(", " ", ")", " ").Replace(txt.String()))
	byRef := map[string]*Term{}
	for _, v := range s.declVars {
		byRef[v.ref()] = v
	}
	for i := 0; i+1 < len(toks); i++ {
		v, ok := byRef[toks[i]]
		if !ok {
			continue
		}
		val := toks[i+1]
		var u uint64
		switch {
		case val == "true":
			u = 1
		case val == "false":
			u = 0
		case strings.HasPrefix(val, "#x"):
			u, _ = strconv.ParseUint(val[2:], 16, 64)
		case strings.HasPrefix(val, "#b"):
			u, _ = strconv.ParseUint(val[2:], 2, 64)
		case val == "_" && i+2 < len(toks) && strings.HasPrefix(toks[i+2], "bv"):
			u, _ = strconv.ParseUint(toks[i+2][2:], 10, 64)
		}
		m[v.name] = u
		i++
	}
	return m
}
