package main

// Goroutines as coroutines under a decision-driven scheduler; channels, select,
// sync primitives, logical clock.

import (
	"fmt"
	"go/types"
	"os"
	"sort"

	"golang.org/x/tools/go/ssa"
)

var schedDebug = os.Getenv("GOSYM_SCHED_DEBUG") != ""

type gState int

const (
	gRunnable gState = iota
	gBlocked
	gDone
)

type Goroutine struct {
	id        int
	name      string
	state     gState
	ready     func() bool
	wakeAt    int64 // >0: sleeping until the logical clock reaches it
	sleeping  bool
	quiescing bool
	idleNeed  int
	idleHave  int
	idleSince int64
	wake      chan struct{}
	exited    chan struct{}
	baseDepth int
	blockedOn string
	recvOn    []*Chan
	isMain    bool
	everSlept bool
}

type timerEnt struct {
	id    int
	when  int64
	fire  func()
	dead  bool
	label string
}

type Sched struct {
	in          *Interp
	gs          []*Goroutine
	cur         *Goroutine
	main        *Goroutine
	preemptions int
	clock       int64
	abort       *pathEnd
	ids         int
	timers      []*timerEnt
	idleTicks   int
	schedule    []int
	mutexes     map[*Value]*mutexState
	conds       map[*Value]*condState
	wgs         map[*Value]*int
	noYield     int
	switches    int
}

type mutexState struct {
	locked  bool
	readers int
	owner   int
}

type condState struct {
	waiters []*Goroutine
}

func newSched(in *Interp) *Sched {
	s := &Sched{in: in, mutexes: map[*Value]*mutexState{}, conds: map[*Value]*condState{}, wgs: map[*Value]*int{}}
	s.clock = 1_700_000_000_000_000_000 // arbitrary epoch (ns)
	g := &Goroutine{id: 0, name: "main", wake: make(chan struct{}, 1), isMain: true}
	s.gs = []*Goroutine{g}
	s.cur, s.main = g, g
	return s
}

func (s *Sched) newID() int { s.ids++; return s.ids }

// goStmt starts an interpreted goroutine.
func (in *Interp) goStmt(fr *Frame, fn Value, args []Value, site ssa.Instruction) {
	s := in.sched
	if len(s.gs) >= in.cfg.MaxGoroutines {
		panic(pathEnd{"unwind-exceeded", "goroutine budget"})
	}
	g := &Goroutine{id: len(s.gs), wake: make(chan struct{}, 1), exited: make(chan struct{})}
	switch f := fn.(type) {
	case *ssa.Function:
		g.name = f.Name()
	case *Closure:
		g.name = f.Fn.Name()
	}
	s.gs = append(s.gs, g)
	go func() {
		defer close(g.exited)
		<-g.wake
		var end *pathEnd
		func() {
			defer func() {
				r := recover()
				switch p := r.(type) {
				case nil:
				case pathEnd:
					end = &p
				case *goPanic:
					end = &pathEnd{"panic", fmt.Sprintf("goroutine %s: panic: %s [%s]", g.name, p.msg, p.site)}
					in.lastPanic = p
				case *engineBug:
					end = &pathEnd{"engine-error", p.String()}
					in.engineErr = p.String()
				default:
					end = &pathEnd{"engine-error", fmt.Sprintf("%v", r)}
					in.engineErr = r
				}
			}()
			if s.abort != nil {
				return
			}
			g.baseDepth = 0
			in.depth = 0
			gfr := &Frame{in: in, g: g, fn: fr.fn}
			gfr.curInstr = site
			in.callFromGo(g, fn, args)
		}()
		g.state = gDone
		if s.abort != nil {
			return // being torn down; the main goroutine is in control
		}
		if end != nil {
			if end.kind != "abort" {
				s.abort = end
			}
			// hand control to main, which re-raises
			s.cur = s.main
			s.main.wake <- struct{}{}
			return
		}
		// normal exit: pass the baton on
		s.pickNext(nil, false)
	}()
	s.yield(fr, "go")
}

func (in *Interp) callFromGo(g *Goroutine, fn Value, args []Value) {
	switch f := fn.(type) {
	case *ssa.Function:
		in.callFunctionG(g, f, args, nil)
	case *Closure:
		in.callFunctionG(g, f.Fn, args, f.Env)
	default:
		panic(fmt.Sprintf("go of %T", fn))
	}
}

func (in *Interp) callFunctionG(g *Goroutine, fn *ssa.Function, args []Value, env []Value) {
	root := &Frame{in: in, g: g, fn: fn}
	in.callFunction(root, fn, args, env)
}

// yield is a scheduling point before a visible operation.
func (s *Sched) yield(fr *Frame, what string) {
	if len(s.gs) == 1 || s.noYield > 0 || s.in.initDepth > 0 {
		return
	}
	s.pickNext(fr, true)
}

// block parks the current goroutine until ready() holds.
func (s *Sched) block(fr *Frame, what string, ready func() bool) {
	if ready() {
		return
	}
	if s.noYield > 0 {
		panic(pathEnd{"unsupported", "blocking operation inside an atomic region: " + what})
	}
	g := s.cur
	g.state = gBlocked
	g.ready = ready
	g.blockedOn = what
	s.pickNext(fr, false)
	g.state = gRunnable
	g.ready = nil
	g.blockedOn = ""
}

func (s *Sched) enabled() (run []*Goroutine, sleepers []*Goroutine) {
	for _, g := range s.gs {
		switch g.state {
		case gRunnable:
			run = append(run, g)
		case gBlocked:
			if g.sleeping {
				if s.clock >= g.wakeAt {
					run = append(run, g)
				} else {
					sleepers = append(sleepers, g)
				}
			} else if g.ready != nil && g.ready() {
				run = append(run, g)
			}
		}
	}
	return
}

// pickNext chooses the goroutine to run next and transfers control.
func (s *Sched) pickNext(fr *Frame, curRunnable bool) {
	in := s.in
	cur := s.cur
	if s.abort != nil {
		panic(pathEnd{"abort", ""})
	}
	for {
		run, sleepers := s.enabled()
		pendingTimers := 0
		for _, t := range s.timers {
			if !t.dead {
				pendingTimers++
			}
		}
		// candidates: enabled goroutines; plus "advance time" when something sleeps
		var cands []*Goroutine
		if curRunnable && cur.state != gDone {
			cands = append(cands, cur)
		}
		for _, g := range run {
			if g != cur || !curRunnable {
				if g == cur && curRunnable {
					continue
				}
				cands = append(cands, g)
			}
		}
		nonIdle := len(cands) > 0
		if schedDebug {
			st := ""
			for _, g := range s.gs {
				st += fmt.Sprintf(" [%d %s st=%d sl=%v q=%v on=%s]", g.id, g.name, g.state, g.sleeping, g.quiescing, g.blockedOn)
			}
			fmt.Fprintf(os.Stderr, "pick: cur=%d runnable=%v cands=%d sleepers=%d idleTicks=%d pre=%d%s\n", cur.id, curRunnable, len(cands), len(sleepers), s.idleTicks, s.preemptions, st)
		}
		if !nonIdle {
			// nothing can run: quiescence handling / time advance / deadlock
			var q *Goroutine
			for _, g := range s.gs {
				if g.state == gBlocked && g.quiescing {
					q = g
				}
			}
			if len(sleepers) == 0 && pendingTimers == 0 {
				if q != nil {
					q.quiescing = false
					q.ready = func() bool { return true }
					continue
				}
				msg := "all goroutines are blocked:"
				for _, g := range s.gs {
					if g.state == gBlocked {
						msg += fmt.Sprintf(" [%d %s on %s]", g.id, g.name, g.blockedOn)
					}
				}
				panic(pathEnd{"deadlock", msg})
			}
			if q != nil {
				// quiet for long enough (logical time since the last real activity)?
				if s.clock-q.idleSince >= int64(q.idleNeed)*1_000_000 {
					q.quiescing = false
					q.ready = func() bool { return true }
					continue
				}
				s.advanceClockCapped(sleepers, q.idleSince+int64(q.idleNeed)*1_000_000)
				continue
			} else {
				s.idleTicks++
				if s.idleTicks > in.cfg.MaxIdleTicks {
					msg := "no progress while only timers run:"
					for _, g := range s.gs {
						if g.state == gBlocked && !g.sleeping {
							msg += fmt.Sprintf(" [%d %s on %s]", g.id, g.name, g.blockedOn)
						}
					}
					panic(pathEnd{"wedge", msg})
				}
			}
			s.advanceClock(sleepers)
			continue
		}
		// Delay-bounded scheduling: the candidates are ordered deterministically (the running
		// goroutine first if it can continue, then round-robin by id after it, then "let time
		// pass"); picking the j-th candidate costs j delays out of the budget (cfg.Preemptions).
		// The default (cost 0) is to continue / hand over to the next goroutine in order.
		ordered := make([]*Goroutine, 0, len(cands))
		if curRunnable && cur.state != gDone {
			ordered = append(ordered, cur)
		}
		var after, before []*Goroutine
		for _, g := range cands {
			if g == cur && curRunnable {
				continue
			}
			if g.id > cur.id {
				after = append(after, g)
			} else {
				before = append(before, g)
			}
		}
		ordered = append(append(ordered, after...), before...)
		n := len(ordered)
		extra := 0
		if in.cfg.TimerPreempt && (len(sleepers) > 0 || pendingTimers > 0) {
			extra = 1
		}
		budget := in.cfg.Preemptions - s.preemptions
		opts := n + extra
		if opts > budget+1 {
			opts = budget + 1
		}
		c := 0
		if opts > 1 {
			c = in.path.choose(in, DSched, opts, fr)
		}
		s.preemptions += c
		if c >= n {
			s.advanceClock(sleepers)
			// after advancing, loop to choose again (the woken sleeper is now enabled)
			continue
		}
		choice := ordered[c]
		if !choice.isDaemonLike() && !choice.quiescing {
			// real (non timer-driven) activity restarts the idle count
			s.idleTicks = 0
			for _, g := range s.gs {
				if g.quiescing {
					g.idleSince = s.clock
				}
			}
		}
		s.switchTo(choice)
		return
	}
}

// a goroutine that has slept at least once is timer-driven (heart-beat style)
func (g *Goroutine) isDaemonLike() bool { return g.sleeping || g.everSlept }

// advanceClockCapped advances to the next timer or to limit, whichever is earlier.
func (s *Sched) advanceClockCapped(sleepers []*Goroutine, limit int64) {
	var next int64 = -1
	for _, g := range sleepers {
		if next < 0 || g.wakeAt < next {
			next = g.wakeAt
		}
	}
	for _, t := range s.timers {
		if !t.dead && (next < 0 || t.when < next) {
			next = t.when
		}
	}
	if next < 0 || next > limit {
		if limit > s.clock {
			s.clock = limit
		}
		return
	}
	s.advanceClock(sleepers)
}

func (s *Sched) advanceClock(sleepers []*Goroutine) {
	var next int64 = -1
	for _, g := range sleepers {
		if next < 0 || g.wakeAt < next {
			next = g.wakeAt
		}
	}
	for _, t := range s.timers {
		if !t.dead && (next < 0 || t.when < next) {
			next = t.when
		}
	}
	if next < 0 {
		return
	}
	if next > s.clock {
		s.clock = next
	}
	// fire due timers
	sort.SliceStable(s.timers, func(i, j int) bool { return s.timers[i].when < s.timers[j].when })
	for _, t := range s.timers {
		if !t.dead && t.when <= s.clock {
			t.dead = true
			t.fire()
		}
	}
	live := s.timers[:0]
	for _, t := range s.timers {
		if !t.dead {
			live = append(live, t)
		}
	}
	s.timers = live
}

func (s *Sched) switchTo(g *Goroutine) {
	cur := s.cur
	if g == cur {
		return
	}
	s.switches++
	s.schedule = append(s.schedule, g.id)
	if schedDebug {
		fmt.Fprintf(os.Stderr, "sched: %d(%s) -> %d(%s) clock=%d steps=%d\n", cur.id, cur.name, g.id, g.name, s.clock, s.in.steps)
	}
	s.cur = g
	savedDepth := s.in.depth
	g.wake <- struct{}{}
	if cur.state == gDone {
		return
	}
	<-cur.wake
	s.in.depth = savedDepth
	if s.abort != nil {
		if cur.isMain {
			panic(*s.abort)
		}
		panic(pathEnd{"abort", ""})
	}
}

// teardown unwinds every parked goroutine at the end of a path.
func (s *Sched) teardown() {
	if s.abort == nil {
		s.abort = &pathEnd{"abort", ""}
	}
	for _, g := range s.gs[1:] {
		if g.state != gDone || true {
			select {
			case <-g.exited:
				continue
			default:
			}
			g.wake <- struct{}{}
			<-g.exited
		}
	}
}

func (s *Sched) sleep(fr *Frame, d int64) {
	g := s.cur
	if d < 0 {
		d = 0
	}
	if len(s.gs) == 1 && len(s.timers) == 0 {
		s.clock += d
		return
	}
	g.sleeping = true
	g.everSlept = true
	g.wakeAt = s.clock + d
	g.state = gBlocked
	g.blockedOn = "sleep"
	s.pickNext(fr, false)
	g.sleeping = false
	g.state = gRunnable
	g.blockedOn = ""
}

// quiesce blocks the caller until nothing but timers can run and `rounds`
// timer rounds have passed without waking anything else.
func (s *Sched) quiesce(fr *Frame, rounds int) {
	g := s.cur
	if len(s.gs) == 1 {
		return
	}
	g.quiescing = true
	g.idleNeed = rounds
	g.idleSince = s.clock
	g.state = gBlocked
	g.ready = func() bool { return false }
	g.blockedOn = "quiesce"
	s.pickNext(fr, false)
	g.state = gRunnable
	g.quiescing = false
	g.ready = nil
	g.blockedOn = ""
}

// ---- channels ----

type sendItem struct {
	v     Value
	taken bool
}

type Chan struct {
	id     int
	cap    int
	buf    []Value
	closed bool
	sendq  []*sendItem
	recvW  int
}

func (in *Interp) chanSend(fr *Frame, chv Value, v Value) {
	s := in.sched
	ch := chv.(*Chan)
	s.yield(fr, "chan send")
	if ch == nil {
		s.block(fr, "send on nil chan", func() bool { return false })
	}
	if ch.closed {
		in.rtPanicMsg(fr, "send on closed channel")
	}
	v = copyVal(v)
	if ch.cap == 0 {
		it := &sendItem{v: v}
		ch.sendq = append(ch.sendq, it)
		s.block(fr, fmt.Sprintf("chan send #%d", ch.id), func() bool { return it.taken || ch.closed })
		if !it.taken {
			in.rtPanicMsg(fr, "send on closed channel")
		}
		return
	}
	s.block(fr, fmt.Sprintf("chan send #%d", ch.id), func() bool { return len(ch.buf) < ch.cap || ch.closed })
	if ch.closed {
		in.rtPanicMsg(fr, "send on closed channel")
	}
	ch.buf = append(ch.buf, v)
}

func (in *Interp) rtPanicMsg(fr *Frame, msg string) {
	panic(&goPanic{val: Iface{T: rtErrType, V: mkStr(in.ts, msg)}, msg: msg, site: fr.site()})
}

func (ch *Chan) canRecv() bool { return len(ch.buf) > 0 || len(ch.sendq) > 0 || ch.closed }

func (ch *Chan) doRecv() (Value, bool) {
	if len(ch.buf) > 0 {
		v := ch.buf[0]
		ch.buf = append([]Value(nil), ch.buf[1:]...)
		return v, true
	}
	if len(ch.sendq) > 0 {
		it := ch.sendq[0]
		ch.sendq = ch.sendq[1:]
		it.taken = true
		return it.v, true
	}
	return nil, false
}

func (in *Interp) chanRecv(fr *Frame, chv Value, t types.Type, commaOk bool) (Value, bool) {
	s := in.sched
	ch := chv.(*Chan)
	s.yield(fr, "chan recv")
	if ch == nil {
		s.block(fr, "recv on nil chan", func() bool { return false })
	}
	ch.recvW++
	s.block(fr, fmt.Sprintf("chan recv #%d", ch.id), ch.canRecv)
	ch.recvW--
	v, ok := ch.doRecv()
	if !ok {
		et := t
		if commaOk {
			et = t.(*types.Tuple).At(0).Type()
		}
		return in.zero(et), false
	}
	return v, true
}

func (in *Interp) chanClose(fr *Frame, chv Value) {
	ch := chv.(*Chan)
	in.sched.yield(fr, "chan close")
	if ch == nil {
		in.rtPanicMsg(fr, "close of nil channel")
	}
	if ch.closed {
		in.rtPanicMsg(fr, "close of closed channel")
	}
	ch.closed = true
}

func (in *Interp) selectOp(fr *Frame, instr *ssa.Select) Value {
	s := in.sched
	s.yield(fr, "select")
	type cs struct {
		ch   *Chan
		send bool
		v    Value
	}
	cases := make([]cs, len(instr.States))
	for i, st := range instr.States {
		c := cs{send: st.Dir == types.SendOnly}
		c.ch, _ = fr.get(st.Chan).(*Chan)
		if c.send {
			c.v = fr.get(st.Send)
		}
		cases[i] = c
	}
	readyIdx := func() []int {
		var r []int
		for i, c := range cases {
			if c.ch == nil {
				continue
			}
			if c.send {
				if c.ch.closed || len(c.ch.buf) < c.ch.cap || (c.ch.cap == 0 && c.ch.recvW > 0) {
					r = append(r, i)
				}
			} else if c.ch.canRecv() {
				r = append(r, i)
			}
		}
		return r
	}
	r := readyIdx()
	chosen := -1
	if len(r) == 0 {
		if !instr.Blocking {
			chosen = -1
		} else {
			for _, c := range cases {
				if c.ch != nil && !c.send {
					c.ch.recvW++
				}
			}
			s.block(fr, "select", func() bool { return len(readyIdx()) > 0 })
			for _, c := range cases {
				if c.ch != nil && !c.send {
					c.ch.recvW--
				}
			}
			r = readyIdx()
		}
	}
	if len(r) > 0 {
		chosen = r[in.path.choose(in, DSched, len(r), fr)]
	}
	// result tuple: index, recvOk, then one value per receive case
	res := Tuple{in.ts.Const(uint64(int64(chosen)), 64), in.ts.ff}
	var recvVal Value
	recvOK := false
	if chosen >= 0 {
		c := cases[chosen]
		if c.send {
			if c.ch.closed {
				in.rtPanicMsg(fr, "send on closed channel")
			}
			if c.ch.cap == 0 {
				it := &sendItem{v: copyVal(c.v)}
				c.ch.sendq = append(c.ch.sendq, it)
			} else {
				c.ch.buf = append(c.ch.buf, copyVal(c.v))
			}
		} else {
			recvVal, recvOK = c.ch.doRecv()
		}
	}
	res[1] = in.ts.Bool(recvOK)
	for i, st := range instr.States {
		if st.Dir == types.RecvOnly {
			et := st.Chan.Type().Underlying().(*types.Chan).Elem()
			if i == chosen && recvOK {
				res = append(res, recvVal)
			} else {
				res = append(res, in.zero(et))
			}
		}
	}
	return res
}
