package main

import (
	"fmt"
	"go/token"
	"go/types"
	"math"
	"unicode/utf8"

	"golang.org/x/tools/go/ssa"
)

func basicOf(t types.Type) *types.Basic {
	b, _ := t.Underlying().(*types.Basic)
	return b
}

func (in *Interp) unop(fr *Frame, instr *ssa.UnOp, x Value) Value {
	switch instr.Op {
	case token.MUL:
		v := in.load(fr, x)
		// the `*(*string)(unsafe.Pointer(&b))` idiom and its inverse: reinterpret, keeping the aliasing
		switch vv := v.(type) {
		case Slice:
			if b, ok := instr.Type().Underlying().(*types.Basic); ok && b.Info()&types.IsString != 0 {
				return Str{vv.v[:len(vv.v):len(vv.v)]}
			}
		case Str:
			if _, ok := instr.Type().Underlying().(*types.Slice); ok {
				if len(vv.b) == 0 {
					return Slice{}
				}
				return Slice{vv.b[:len(vv.b):len(vv.b)]}
			}
		}
		return v
	case token.ARROW:
		v, ok := in.chanRecv(fr, x, instr.Type(), instr.CommaOk)
		if instr.CommaOk {
			return Tuple{v, in.ts.Bool(ok)}
		}
		return v
	case token.NOT:
		return in.ts.Not(x.(*Term))
	case token.SUB:
		switch x := x.(type) {
		case *Term:
			return in.ts.Neg(x)
		case float64:
			return -x
		case complex128:
			return -x
		}
	case token.XOR:
		return in.ts.BNot(x.(*Term))
	}
	panic(fmt.Sprintf("unop %v %T", instr.Op, x))
}

// boolTerm compares for equality producing a Bool term.
func (in *Interp) equals(t types.Type, x, y Value) *Term {
	ts := in.ts
	switch x := x.(type) {
	case *Term:
		return ts.Eq(x, y.(*Term))
	case float64:
		return ts.Bool(x == y.(float64))
	case complex128:
		return ts.Bool(x == y.(complex128))
	case Str:
		return in.strEq(x, y.(Str))
	case *Value:
		yp, ok := y.(*Value)
		if !ok {
			if y == nil {
				return ts.Bool(x == nil)
			}
			if u, ok := y.(UnsafePtr); ok {
				return in.equals(t, x, u.p)
			}
			return ts.ff
		}
		return ts.Bool(x == yp)
	case UnsafePtr:
		if u, ok := y.(UnsafePtr); ok {
			if x.p == nil || u.p == nil {
				return ts.Bool(isNilPtr(x.p) && isNilPtr(u.p))
			}
			return in.equals(t, x.p, u.p)
		}
		return in.equals(t, x.p, y)
	case *SymRef:
		return ts.Bool(x == y)
	case *Map:
		return ts.Bool(x == y.(*Map))
	case *Chan:
		return ts.Bool(x == y.(*Chan))
	case *Native:
		return ts.Bool(x == y)
	case Iface:
		yi := y.(Iface)
		if x.T == nil || yi.T == nil {
			return ts.Bool(x.T == nil && yi.T == nil)
		}
		if !types.Identical(x.T, yi.T) {
			return ts.ff
		}
		if !types.Comparable(x.T) {
			panic(&goPanic{val: Iface{T: rtErrType, V: mkStr(ts, "comparing uncomparable type " + x.T.String())}, msg: "runtime error: comparing uncomparable type " + x.T.String()})
		}
		return in.equals(x.T, x.V, yi.V)
	case Struct:
		ys := y.(Struct)
		st := t.Underlying().(*types.Struct)
		res := ts.tt
		for i := range x {
			if st.Field(i).Name() == "_" {
				continue
			}
			res = ts.And(res, in.equals(st.Field(i).Type(), x[i], ys[i]))
		}
		return res
	case Array:
		ya := y.(Array)
		et := t.Underlying().(*types.Array).Elem()
		res := ts.tt
		for i := range x {
			res = ts.And(res, in.equals(et, x[i], ya[i]))
		}
		return res
	case Slice:
		// only comparison with nil is legal
		if ys, ok := y.(Slice); ok {
			if ys.v == nil {
				return ts.Bool(x.v == nil)
			}
			if x.v == nil {
				return ts.Bool(ys.v == nil)
			}
		}
		panic("slice comparison")
	case *ssa.Function, *Closure, *ssa.Builtin:
		return ts.Bool(y != nil && x == y)
	case nil:
		switch y := y.(type) {
		case nil:
			return ts.tt
		case *ssa.Function:
			return ts.Bool(y == nil)
		case *Closure:
			return ts.Bool(y == nil)
		case *Value:
			return ts.Bool(y == nil)
		}
		return ts.ff
	}
	panic(fmt.Sprintf("equals: %T vs %T", x, y))
}

func isNilPtr(v Value) bool {
	switch v := v.(type) {
	case nil:
		return true
	case *Value:
		return v == nil
	case UnsafePtr:
		return isNilPtr(v.p)
	}
	return false
}

func (in *Interp) strEq(a, b Str) *Term {
	if len(a.b) != len(b.b) {
		return in.ts.ff
	}
	res := in.ts.tt
	for i := range a.b {
		res = in.ts.And(res, in.ts.Eq(a.b[i].(*Term), b.b[i].(*Term)))
		if res.op == OpFalse {
			return res
		}
	}
	return res
}

// strLess builds a<b lexicographically.
func (in *Interp) strLess(a, b Str, orEq bool) *Term {
	ts := in.ts
	n := min(len(a.b), len(b.b))
	// tail: all common bytes equal
	var res *Term
	if orEq {
		res = ts.Bool(len(a.b) <= len(b.b))
	} else {
		res = ts.Bool(len(a.b) < len(b.b))
	}
	for i := n - 1; i >= 0; i-- {
		x, y := a.b[i].(*Term), b.b[i].(*Term)
		res = ts.Ite(ts.Eq(x, y), res, ts.Cmp(OpUlt, x, y))
	}
	return res
}

func (in *Interp) binop(fr *Frame, op token.Token, xt, yt types.Type, x, y Value) Value {
	ts := in.ts
	switch op {
	case token.EQL:
		return in.equals(xt, x, y)
	case token.NEQ:
		return ts.Not(in.equals(xt, x, y))
	}
	switch x := x.(type) {
	case *Term:
		yv := y.(*Term)
		if x.w == 0 { // bool
			switch op {
			case token.AND, token.LAND:
				return ts.And(x, yv)
			case token.OR, token.LOR:
				return ts.Or(x, yv)
			}
			panic("bool binop " + op.String())
		}
		b := basicOf(xt)
		signed := b != nil && isSigned(b)
		w := int(x.w)
		switch op {
		case token.ADD:
			return ts.Bin(OpAdd, x, yv)
		case token.SUB:
			return ts.Bin(OpSub, x, yv)
		case token.MUL:
			return ts.Bin(OpMul, x, yv)
		case token.QUO, token.REM:
			zero := ts.Eq(yv, ts.Const(0, w))
			if in.condBool(fr, zero) {
				in.rtPanic(fr, "integer divide by zero")
			}
			var o Op
			switch {
			case op == token.QUO && signed:
				o = OpSDiv
			case op == token.QUO:
				o = OpUDiv
			case signed:
				o = OpSRem
			default:
				o = OpURem
			}
			return ts.Bin(o, x, yv)
		case token.AND:
			return ts.Bin(OpBAnd, x, yv)
		case token.OR:
			return ts.Bin(OpBOr, x, yv)
		case token.XOR:
			return ts.Bin(OpBXor, x, yv)
		case token.AND_NOT:
			return ts.Bin(OpBAnd, x, ts.BNot(yv))
		case token.SHL, token.SHR:
			yb := basicOf(yt)
			if yb != nil && isSigned(yb) {
				neg := ts.Cmp(OpSlt, yv, ts.Const(0, int(yv.w)))
				if in.condBool(fr, neg) {
					in.rtPanic(fr, "negative shift amount")
				}
			}
			var big *Term = ts.ff
			if int(yv.w) > w {
				big = ts.Cmp(OpUle, ts.Const(uint64(w), int(yv.w)), yv)
				yv = ts.Extract(yv, w-1, 0)
			} else if int(yv.w) < w {
				yv = ts.ZExt(yv, w)
			}
			var o Op
			switch {
			case op == token.SHL:
				o = OpShl
			case signed:
				o = OpAShr
			default:
				o = OpLShr
			}
			r := ts.Bin(o, x, yv)
			if big.op != OpFalse {
				var sat *Term
				if o == OpAShr {
					sat = ts.Bin(OpAShr, x, ts.Const(uint64(w-1), w))
				} else {
					sat = ts.Const(0, w)
				}
				r = ts.Ite(big, sat, r)
			}
			return r
		case token.LSS:
			if signed {
				return ts.Cmp(OpSlt, x, yv)
			}
			return ts.Cmp(OpUlt, x, yv)
		case token.LEQ:
			if signed {
				return ts.Cmp(OpSle, x, yv)
			}
			return ts.Cmp(OpUle, x, yv)
		case token.GTR:
			if signed {
				return ts.Cmp(OpSlt, yv, x)
			}
			return ts.Cmp(OpUlt, yv, x)
		case token.GEQ:
			if signed {
				return ts.Cmp(OpSle, yv, x)
			}
			return ts.Cmp(OpUle, yv, x)
		}
	case float64:
		yv := y.(float64)
		f32 := basicOf(xt) != nil && basicOf(xt).Kind() == types.Float32
		rnd := func(f float64) Value {
			if f32 {
				return float64(float32(f))
			}
			return f
		}
		switch op {
		case token.ADD:
			return rnd(x + yv)
		case token.SUB:
			return rnd(x - yv)
		case token.MUL:
			return rnd(x * yv)
		case token.QUO:
			return rnd(x / yv)
		case token.LSS:
			return ts.Bool(x < yv)
		case token.LEQ:
			return ts.Bool(x <= yv)
		case token.GTR:
			return ts.Bool(x > yv)
		case token.GEQ:
			return ts.Bool(x >= yv)
		}
	case Str:
		yv := y.(Str)
		switch op {
		case token.ADD:
			b := make([]Value, 0, len(x.b)+len(yv.b))
			b = append(b, x.b...)
			b = append(b, yv.b...)
			return Str{b}
		case token.LSS:
			return in.strLess(x, yv, false)
		case token.LEQ:
			return in.strLess(x, yv, true)
		case token.GTR:
			return in.strLess(yv, x, false)
		case token.GEQ:
			return in.strLess(yv, x, true)
		}
	case complex128:
		yv := y.(complex128)
		switch op {
		case token.ADD:
			return x + yv
		case token.SUB:
			return x - yv
		case token.MUL:
			return x * yv
		case token.QUO:
			return x / yv
		}
	}
	panic(fmt.Sprintf("binop %v on %T,%T at %s", op, x, y, fr.site()))
}

func (in *Interp) conv(fr *Frame, dst, src types.Type, x Value) Value {
	ts := in.ts
	ud, us := dst.Underlying(), src.Underlying()
	// type parameters may appear in MultiConvert only; instantiate-generics avoids them
	switch ud := ud.(type) {
	case *types.Pointer:
		switch x := x.(type) {
		case UnsafePtr:
			if x.p == nil {
				return (*Value)(nil)
			}
			return x.p
		case *Value:
			return x
		}
	case *types.Slice:
		switch x := x.(type) {
		case Str:
			eb := basicOf(ud.Elem())
			if eb != nil && eb.Kind() == types.Int32 { // []rune(s)
				s, ok := x.concrete()
				if !ok {
					in.unsupported(fr, "[]rune of symbolic string")
				}
				rs := []rune(s)
				v := make([]Value, len(rs))
				for i, r := range rs {
					v[i] = ts.Const(uint64(r), 32)
				}
				return Slice{v}
			}
			v := make([]Value, len(x.b))
			copy(v, x.b)
			return Slice{v}
		case Slice:
			return x
		}
	case *types.Basic:
		if ud.Kind() == types.UnsafePointer {
			switch x := x.(type) {
			case UnsafePtr:
				return x
			case *Term: // uintptr -> unsafe.Pointer
				if p, ok := in.uintptrs[x.k]; ok && x.IsConst() {
					return UnsafePtr{p}
				}
				if x.IsConst() && x.k == 0 {
					return UnsafePtr{}
				}
				in.unsupported(fr, "uintptr to unsafe.Pointer")
			default:
				return UnsafePtr{x}
			}
		}
		if ud.Info()&types.IsString != 0 {
			switch x := x.(type) {
			case Str:
				return x
			case Slice:
				eb := basicOf(us.(*types.Slice).Elem())
				if eb.Kind() == types.Int32 { // string([]rune)
					var out []byte
					for _, r := range x.v {
						t := r.(*Term)
						if !t.IsConst() {
							in.unsupported(fr, "string of symbolic []rune")
						}
						out = utf8.AppendRune(out, rune(int32(t.k)))
					}
					return mkStr(ts, string(out))
				}
				b := make([]Value, len(x.v))
				copy(b, x.v)
				return Str{b}
			case *Term: // string(rune)
				if !x.IsConst() {
					return in.encodeRuneSym(fr, x, basicOf(src) != nil && isSigned(basicOf(src)))
				}
				sb := basicOf(src)
				var r rune
				if sb != nil && isSigned(sb) {
					v := sext(x.k, int(x.w))
					if v < 0 || v > math.MaxInt32 {
						r = utf8.RuneError
					} else {
						r = rune(v)
					}
				} else if x.k > math.MaxInt32 {
					r = utf8.RuneError
				} else {
					r = rune(x.k)
				}
				return mkStr(ts, string(r))
			}
		}
		if ud.Info()&types.IsInteger != 0 {
			w := sizeofBasic(ud)
			switch x := x.(type) {
			case *Term:
				sb := basicOf(src)
				if int(x.w) >= w {
					return ts.Extract(x, w-1, 0)
				}
				if sb != nil && isSigned(sb) {
					return ts.SExt(x, w)
				}
				return ts.ZExt(x, w)
			case float64:
				if isSigned(ud) {
					return ts.Const(uint64(int64(x)), w)
				}
				return ts.Const(uint64(x), w)
			case UnsafePtr: // unsafe.Pointer -> uintptr
				if isNilPtr(x.p) {
					return ts.Const(0, 64)
				}
				return ts.Const(in.uintptrOf(x.p), 64)
			}
		}
		if ud.Info()&types.IsFloat != 0 {
			var f float64
			switch x := x.(type) {
			case float64:
				f = x
			case *Term:
				if !x.IsConst() {
					in.unsupported(fr, "symbolic integer converted to float")
				}
				sb := basicOf(src)
				if sb != nil && isSigned(sb) {
					f = float64(sext(x.k, int(x.w)))
				} else {
					f = float64(x.k)
				}
			}
			if ud.Kind() == types.Float32 {
				return float64(float32(f))
			}
			return f
		}
		if ud.Info()&types.IsComplex != 0 {
			return x
		}
	}
	panic(fmt.Sprintf("conv %v -> %v (%T) at %s", src, dst, x, fr.site()))
}

func (in *Interp) uintptrOf(p Value) uint64 {
	for k, v := range in.uintptrs {
		if v == p {
			return k
		}
	}
	in.nextUintptr += 0x1000
	k := 0xc000000000 + in.nextUintptr
	in.uintptrs[k] = p
	return k
}

func (in *Interp) typeAssert(fr *Frame, instr *ssa.TypeAssert, itf Iface) Value {
	var v Value
	ok := false
	if _, isIface := instr.AssertedType.Underlying().(*types.Interface); isIface {
		if itf.T != nil {
			idst := instr.AssertedType.Underlying().(*types.Interface)
			if types.Implements(itf.T, idst) || in.implementsViaMethodSet(itf.T, idst) {
				v = itf
				ok = true
			}
		}
	} else if itf.T != nil && types.Identical(itf.T, instr.AssertedType) {
		v = itf.V
		ok = true
	}
	if instr.CommaOk {
		if !ok {
			v = in.zero(instr.AssertedType)
		}
		return Tuple{v, in.ts.Bool(ok)}
	}
	if !ok {
		have := "nil"
		if itf.T != nil {
			have = itf.T.String()
		}
		msg := fmt.Sprintf("interface conversion: interface is %s, not %s", have, instr.AssertedType)
		panic(&goPanic{val: Iface{T: rtErrType, V: mkStr(in.ts, msg)}, msg: msg, site: fr.site()})
	}
	return v
}

func (in *Interp) implementsViaMethodSet(T types.Type, I *types.Interface) bool {
	ms := in.prog.MethodSets.MethodSet(T)
	for i := 0; i < I.NumMethods(); i++ {
		m := I.Method(i)
		if ms.Lookup(m.Pkg(), m.Name()) == nil {
			return false
		}
	}
	return true
}

func (in *Interp) lenOf(x Value) int {
	switch x := x.(type) {
	case Str:
		return len(x.b)
	case Slice:
		return len(x.v)
	case Array:
		return len(x)
	case *Value:
		if x == nil {
			return 0
		}
		return len((*x).(Array))
	case *Map:
		if x == nil {
			return 0
		}
		return x.n
	case *Chan:
		if x == nil {
			return 0
		}
		return len(x.buf)
	}
	panic(fmt.Sprintf("len of %T", x))
}

func (in *Interp) callBuiltin(fr *Frame, fn *ssa.Builtin, args []Value, site ssa.Instruction) Value {
	ts := in.ts
	switch fn.Name() {
	case "append":
		if len(args) == 1 {
			return args[0]
		}
		s := args[0].(Slice)
		var add []Value
		switch a := args[1].(type) {
		case Str:
			add = a.b
		case Slice:
			add = a.v
		}
		if len(add) == 0 {
			return s
		}
		// Go growth: reuse capacity when possible, else allocate (model: new cap = max(2*cap, need))
		need := len(s.v) + len(add)
		if need <= cap(s.v) {
			out := s.v[:need]
			for i, e := range add {
				out[len(s.v)+i] = copyVal(e)
			}
			return Slice{out}
		}
		nc := 2 * cap(s.v)
		if nc < need {
			nc = need
		}
		out := make([]Value, need, nc)
		copy(out, s.v)
		for i, e := range add {
			out[len(s.v)+i] = copyVal(e)
		}
		// fill spare capacity with zero values lazily: use zero of first element kind
		if nc > need {
			z := zeroLike(ts, out[0])
			full := out[:nc]
			for i := need; i < nc; i++ {
				full[i] = copyVal(z)
			}
		}
		return Slice{out}
	case "copy":
		dst := args[0].(Slice)
		var src []Value
		switch a := args[1].(type) {
		case Str:
			src = a.b
		case Slice:
			src = a.v
		}
		n := min(len(dst.v), len(src))
		if n > 0 {
			tmp := make([]Value, n)
			for i := 0; i < n; i++ {
				tmp[i] = copyVal(src[i])
			}
			copy(dst.v, tmp)
		}
		return ts.Const(uint64(n), 64)
	case "len":
		return ts.Const(uint64(in.lenOf(args[0])), 64)
	case "cap":
		switch x := args[0].(type) {
		case Slice:
			return ts.Const(uint64(cap(x.v)), 64)
		case *Chan:
			if x == nil {
				return ts.Const(0, 64)
			}
			return ts.Const(uint64(x.cap), 64)
		}
		return ts.Const(uint64(in.lenOf(args[0])), 64)
	case "close":
		in.chanClose(fr, args[0])
		return nil
	case "delete":
		m := args[0].(*Map)
		if m != nil {
			in.mapDelete(fr, m, args[1])
		}
		return nil
	case "clear":
		switch x := args[0].(type) {
		case *Map:
			if x != nil {
				x.entries, x.index, x.n, x.symKeys = nil, map[interface{}]*mapEntry{}, 0, 0
			}
		case Slice:
			for i := range x.v {
				x.v[i] = zeroLike(ts, x.v[i])
			}
		}
		return nil
	case "print", "println":
		return nil
	case "panic":
		panic(&goPanic{val: args[0], msg: in.render(args[0]), site: fr.site()})
	case "recover":
		// recover is effective only when called directly by a deferred function
		// while the *caller's caller* frame is panicking
		if fr.caller != nil && fr.caller.panicking {
			p := fr.caller.panic
			fr.caller.panicking = false
			fr.caller.panic = nil
			if p.val == nil {
				return Iface{T: rtErrType, V: mkStr(ts, p.msg)}
			}
			if iv, ok := p.val.(Iface); ok {
				return iv
			}
			return Iface{T: rtErrType, V: mkStr(ts, p.msg)}
		}
		return Iface{}
	case "min", "max":
		call := site.(ssa.CallInstruction).Common()
		t := call.Args[0].Type()
		res := args[0]
		for _, a := range args[1:] {
			var lt Value
			if fn.Name() == "min" {
				lt = in.binop(fr, token.LSS, t, t, a, res)
			} else {
				lt = in.binop(fr, token.GTR, t, t, a, res)
			}
			c := lt.(*Term)
			switch r := res.(type) {
			case *Term:
				res = ts.Ite(c, a.(*Term), r)
			default:
				if in.condBool(fr, c) {
					res = a
				}
			}
		}
		return res
	case "ssa:wrapnilchk":
		if isNilPtr(args[0]) {
			in.rtPanic(fr, "value method called using nil pointer")
		}
		return args[0]
	case "real":
		return real(args[0].(complex128))
	case "imag":
		return imag(args[0].(complex128))
	case "complex":
		return complex(args[0].(float64), args[1].(float64))
	case "String": // unsafe.String
		p := args[0]
		n := int(in.concreteInt(fr, args[1].(*Term), "unsafe.String len"))
		return Str{in.elemsFrom(fr, p, n)}
	case "StringData":
		s := args[0].(Str)
		if len(s.b) == 0 {
			return (*Value)(nil)
		}
		return in.elemPtr(s.b)
	case "Slice": // unsafe.Slice
		p := args[0]
		n := int(in.concreteInt(fr, args[1].(*Term), "unsafe.Slice len"))
		if isNilPtr(p) {
			return Slice{}
		}
		return Slice{in.elemsFrom(fr, p, n)}
	case "SliceData":
		s := args[0].(Slice)
		if cap(s.v) == 0 {
			return (*Value)(nil)
		}
		return in.elemPtr(s.v[:1])
	case "Add":
		in.unsupported(fr, "unsafe.Add")
	}
	panic("unknown builtin " + fn.Name())
}

// elemPtr returns a pointer to the first element that remembers its backing slice.
func (in *Interp) elemPtr(b []Value) *Value {
	p := &b[:1][0]
	in.elemBacking[p] = b[:len(b):cap(b)]
	return p
}

func (in *Interp) elemsFrom(fr *Frame, p Value, n int) []Value {
	if u, ok := p.(UnsafePtr); ok {
		p = u.p
	}
	pp, ok := p.(*Value)
	if !ok || pp == nil {
		if n == 0 {
			return nil
		}
		in.unsupported(fr, "unsafe.String/Slice of unknown pointer")
	}
	if b, ok := in.elemBacking[pp]; ok {
		if n > cap(b) {
			in.unsupported(fr, "unsafe.String/Slice beyond backing store")
		}
		return b[:n:n]
	}
	if n == 1 {
		return []Value{*pp}
	}
	in.unsupported(fr, "unsafe.String/Slice of pointer without known backing store")
	return nil
}

func zeroLike(ts *TermStore, v Value) Value {
	switch v := v.(type) {
	case *Term:
		if v.w == 0 {
			return ts.ff
		}
		return ts.Const(0, int(v.w))
	case float64:
		return float64(0)
	case Str:
		return Str{}
	case Slice:
		return Slice{}
	case *Value:
		return (*Value)(nil)
	case Iface:
		return Iface{}
	case *Map:
		return (*Map)(nil)
	case *Chan:
		return (*Chan)(nil)
	case Struct:
		s := make(Struct, len(v))
		for i := range v {
			s[i] = zeroLike(ts, v[i])
		}
		return s
	case Array:
		s := make(Array, len(v))
		for i := range v {
			s[i] = zeroLike(ts, v[i])
		}
		return s
	case UnsafePtr:
		return UnsafePtr{}
	case nil, *ssa.Function, *Closure:
		return nil
	}
	panic(fmt.Sprintf("zeroLike %T", v))
}

// ---- range / next ----

func (in *Interp) rangeIter(fr *Frame, x Value) Value {
	switch x := x.(type) {
	case Str:
		return &StrIter{s: x}
	case *Map:
		it := &MapIter{m: x}
		if x != nil {
			for _, e := range x.entries {
				if !e.deleted {
					it.snap = append(it.snap, e)
				}
			}
		}
		return it
	}
	panic(fmt.Sprintf("range over %T", x))
}

func (in *Interp) next(fr *Frame, instr *ssa.Next, itv Value) Value {
	ts := in.ts
	switch it := itv.(type) {
	case *StrIter:
		if it.pos >= len(it.s.b) {
			return Tuple{ts.ff, ts.Const(0, 64), ts.Const(0, 32)}
		}
		b0 := it.s.b[it.pos].(*Term)
		pos := it.pos
		// ASCII fast path (forks when symbolic)
		if in.condBool(fr, ts.Cmp(OpUlt, b0, ts.Const(0x80, 8))) {
			it.pos++
			return Tuple{ts.tt, ts.Const(uint64(pos), 64), ts.ZExt(b0, 32)}
		}
		// multi-byte: decode through the interpreted utf8.DecodeRuneInString
		fn := in.findFunc("unicode/utf8", "DecodeRuneInString")
		res := in.callFunction(fr, fn, []Value{Str{it.s.b[pos:]}}, nil).(Tuple)
		size := int(in.concreteInt(fr, res[1].(*Term), "rune size"))
		it.pos += size
		return Tuple{ts.tt, ts.Const(uint64(pos), 64), res[0]}
	case *MapIter:
		for it.pos < len(it.snap) {
			e := it.snap[it.pos]
			it.pos++
			if e.deleted {
				continue
			}
			return Tuple{ts.tt, e.k, copyVal(e.v)}
		}
		var kz, vz Value
		if it.m != nil {
			kz, vz = in.zero(it.m.kt), in.zero(it.m.vt)
		}
		return Tuple{ts.ff, kz, vz}
	}
	panic(fmt.Sprintf("next on %T", itv))
}

func (in *Interp) findFunc(pkgPath, name string) *ssa.Function {
	for _, p := range in.prog.AllPackages() {
		if p.Pkg.Path() == pkgPath {
			if f := p.Func(name); f != nil {
				return f
			}
		}
	}
	panic("findFunc: " + pkgPath + "." + name)
}

// ---- maps ----

// mapFind returns the entry for key k (forking on symbolic equality), or nil.
func (in *Interp) mapFind(fr *Frame, m *Map, k Value) *mapEntry {
	if m == nil {
		return nil
	}
	h, conc := hashKey(k)
	if conc {
		if e, ok := m.index[h]; ok && !e.deleted {
			return e
		}
		if m.symKeys == 0 {
			return nil
		}
	}
	// symbolic comparison against each live entry (only those that can match)
	for _, e := range m.entries {
		if e.deleted {
			continue
		}
		if conc {
			if _, ec := hashKey(e.k); ec {
				continue // concrete vs concrete, different hash => different key
			}
		}
		eq := in.equals(m.kt, k, e.k)
		if in.condBool(fr, eq) {
			return e
		}
	}
	return nil
}

func (in *Interp) lookup(fr *Frame, instr *ssa.Lookup) Value {
	x := fr.get(instr.X)
	switch x := x.(type) {
	case Str:
		idx := fr.get(instr.Index).(*Term)
		i := in.checkIndex(fr, idx, instr.Index.Type(), len(x.b), true)
		if i >= 0 {
			return x.b[i]
		}
		return in.symLoad(&SymRef{elems: x.b, idx: in.ts.ZExt(idx, 64)})
	case *Map:
		k := fr.get(instr.Index)
		e := in.mapFind(fr, x, k)
		var v Value
		if e != nil {
			v = copyVal(e.v)
		} else {
			v = in.zero(instr.X.Type().Underlying().(*types.Map).Elem())
		}
		if instr.CommaOk {
			return Tuple{v, in.ts.Bool(e != nil)}
		}
		return v
	}
	panic(fmt.Sprintf("lookup in %T", x))
}

func (in *Interp) mapSet(fr *Frame, m *Map, k, v Value) {
	if in.track != nil && in.track.maps[m] {
		in.track.hits++
	}
	if e := in.mapFind(fr, m, k); e != nil {
		e.v = v
		return
	}
	e := &mapEntry{k: k, v: v}
	m.entries = append(m.entries, e)
	m.n++
	if h, conc := hashKey(k); conc {
		m.index[h] = e
	} else {
		m.symKeys++
	}
}

func (in *Interp) mapDelete(fr *Frame, m *Map, k Value) {
	if e := in.mapFind(fr, m, k); e != nil {
		e.deleted = true
		m.n--
		if h, conc := hashKey(e.k); conc {
			delete(m.index, h)
		} else {
			m.symKeys--
		}
	}
}

// encodeRuneSym is string(r) for a symbolic integer: UTF-8 encoding with the
// range decided by forks (at most five), bytes built as terms.
func (in *Interp) encodeRuneSym(fr *Frame, x *Term, signed bool) Value {
	ts := in.ts
	// widen to 64 bits
	var v *Term
	if signed {
		v = ts.SExt(x, 64)
	} else {
		v = ts.ZExt(x, 64)
	}
	c := func(k uint64) *Term { return ts.Const(k, 64) }
	b := func(t *Term) Value { return ts.Extract(t, 7, 0) }
	shr := func(t *Term, n uint64) *Term { return ts.Bin(OpLShr, t, c(n)) }
	or := func(t *Term, k uint64) *Term { return ts.Bin(OpBOr, t, c(k)) }
	and := func(t *Term, k uint64) *Term { return ts.Bin(OpBAnd, t, c(k)) }
	runeErr := mkStr(ts, "\uFFFD")
	if in.condBool(fr, ts.Cmp(OpUlt, v, c(0x80))) {
		return Str{[]Value{b(v)}}
	}
	if in.condBool(fr, ts.Cmp(OpUlt, v, c(0x800))) {
		return Str{[]Value{b(or(shr(v, 6), 0xC0)), b(or(and(v, 0x3F), 0x80))}}
	}
	// invalid: > 0x10FFFF (includes negatives as huge unsigned) or surrogates
	if in.condBool(fr, ts.Cmp(OpUlt, c(0x10FFFF), v)) {
		return runeErr
	}
	sur := ts.And(ts.Cmp(OpUle, c(0xD800), v), ts.Cmp(OpUle, v, c(0xDFFF)))
	if in.condBool(fr, sur) {
		return runeErr
	}
	if in.condBool(fr, ts.Cmp(OpUlt, v, c(0x10000))) {
		return Str{[]Value{b(or(shr(v, 12), 0xE0)), b(or(and(shr(v, 6), 0x3F), 0x80)), b(or(and(v, 0x3F), 0x80))}}
	}
	return Str{[]Value{b(or(shr(v, 18), 0xF0)), b(or(and(shr(v, 12), 0x3F), 0x80)), b(or(and(shr(v, 6), 0x3F), 0x80)), b(or(and(v, 0x3F), 0x80))}}
}
