package main

// Symbolic interpreter for go/ssa: frames, instruction dispatch, calls, panics.

import (
	"fmt"
	"go/constant"
	"go/token"
	"go/types"
	"os"
	"runtime/debug"
	"strings"

	"golang.org/x/tools/go/ssa"
)

// pathEnd is the sentinel used (as a Go panic) to unwind every goroutine of a path.
type pathEnd struct {
	kind string // ok | assume-false | panic | exit | deadlock | wedge | unwind-exceeded | unsupported | infeasible | abort
	msg  string
}

// goPanic is an interpreted Go panic travelling up the interpreted stack.
type goPanic struct {
	val  Value
	msg  string // rendered message for reports
	site string
}

type fnInfo struct {
	idx map[ssa.Value]int
	n   int
}

type deferred struct {
	fn   Value
	args []Value
	site ssa.Instruction
}

type Frame struct {
	in        *Interp
	g         *Goroutine
	caller    *Frame
	fn        *ssa.Function
	info      *fnInfo
	locals    []Value
	env       []Value
	block     *ssa.BasicBlock
	prev      *ssa.BasicBlock
	defers    []deferred
	result    Value
	panicking bool
	panic     *goPanic
	curInstr  ssa.Instruction
}

type Interp struct {
	track *writeTrack // non-nil while vf.SharedWrites runs its closure
	prog  *ssa.Program
	ts   *TermStore
	sol  *Solver
	cfg  *RunConfig
	ex   *Explorer
	wid  int

	fnInfos    map[*ssa.Function]*fnInfo
	constCache map[*ssa.Const]Value
	persist    map[*ssa.Global]*Value // globals of table-only packages, kept across paths
	persistOK  map[*ssa.Package]bool

	// per path
	globals   map[*ssa.Global]*Value
	inited    map[*ssa.Package]bool
	initDepth int
	steps     int
	depth     int
	path      *Path
	sched     *Sched
	pools     map[*Value][]Value
	onceDone  map[*Value]bool
	natives   map[string]Value
	nameCount map[string]int
	harness   map[string]Value // harness scratch (ghost state by key)

	uintptrs       map[uint64]Value
	nextUintptr    uint64
	elemBacking    map[*Value][]Value
	timerOf        map[*Value]*timerEnt
	localFuncs     map[string]bool
	lastPanic      *goPanic
	engineErr      interface{}
	sliceLimit     int64
	cfgExpectEnds  []string
	concreteInputs map[string]uint64
	wrapped        map[*Value]Iface
}

func (in *Interp) info(fn *ssa.Function) *fnInfo {
	if fi, ok := in.fnInfos[fn]; ok {
		return fi
	}
	fi := &fnInfo{idx: map[ssa.Value]int{}}
	add := func(v ssa.Value) {
		fi.idx[v] = fi.n
		fi.n++
	}
	for _, p := range fn.Params {
		add(p)
	}
	for _, p := range fn.FreeVars {
		add(p)
	}
	for _, b := range fn.Blocks {
		for _, ins := range b.Instrs {
			if v, ok := ins.(ssa.Value); ok {
				add(v)
			}
		}
	}
	in.fnInfos[fn] = fi
	return fi
}

func (in *Interp) pos(p token.Pos) string {
	if !p.IsValid() {
		return "?"
	}
	pp := in.prog.Fset.Position(p)
	f := pp.Filename
	if i := strings.Index(f, "/repo/"); i >= 0 {
		f = f[i+6:]
	} else if i := strings.LastIndex(f, "/pkg/mod/"); i >= 0 {
		f = f[i+9:]
	} else if i := strings.Index(f, "/src/"); i >= 0 {
		f = f[i+5:]
	}
	return fmt.Sprintf("%s:%d", f, pp.Line)
}

func (fr *Frame) site() string {
	if fr.curInstr != nil {
		p := fr.curInstr.Pos()
		if !p.IsValid() {
			// search backwards for a positioned instruction in the block
			if b := fr.curInstr.Block(); b != nil {
				for _, ins := range b.Instrs {
					if ins.Pos().IsValid() {
						p = ins.Pos()
					}
					if ins == fr.curInstr {
						break
					}
				}
			}
		}
		return fr.fn.String() + "@" + fr.in.pos(p)
	}
	return fr.fn.String()
}

func (fr *Frame) get(v ssa.Value) Value {
	switch v := v.(type) {
	case *ssa.Const:
		return fr.in.constVal(v)
	case *ssa.Global:
		return fr.in.globalAddr(v)
	case *ssa.Function:
		return v
	case *ssa.Builtin:
		return v
	}
	i, ok := fr.info.idx[v]
	if !ok {
		panic(fmt.Sprintf("get: no local for %T %v in %s", v, v.Name(), fr.fn))
	}
	return fr.locals[i]
}

func (fr *Frame) set(v ssa.Value, x Value) { fr.locals[fr.info.idx[v]] = x }

func (in *Interp) constVal(c *ssa.Const) Value {
	if v, ok := in.constCache[c]; ok {
		return v
	}
	v := in.constVal0(c)
	in.constCache[c] = v
	return v
}

func (in *Interp) constVal0(c *ssa.Const) Value {
	if c.Value == nil {
		return in.zero(c.Type())
	}
	t, ok := c.Type().Underlying().(*types.Basic)
	if !ok {
		// e.g. constant of type parameter or named basic handled by Underlying
		panic(fmt.Sprintf("const of type %v", c.Type()))
	}
	switch {
	case t.Info()&types.IsBoolean != 0:
		return in.ts.Bool(constant.BoolVal(c.Value))
	case t.Info()&types.IsInteger != 0:
		w := sizeofBasic(t)
		v := constant.ToInt(c.Value)
		if i, ok := constant.Int64Val(v); ok {
			return in.ts.Const(uint64(i), w)
		}
		u, _ := constant.Uint64Val(v)
		return in.ts.Const(u, w)
	case t.Info()&types.IsFloat != 0:
		f, _ := constant.Float64Val(c.Value)
		if t.Kind() == types.Float32 {
			return float64(float32(f))
		}
		return f
	case t.Info()&types.IsComplex != 0:
		re, _ := constant.Float64Val(constant.Real(c.Value))
		im, _ := constant.Float64Val(constant.Imag(c.Value))
		return complex(re, im)
	case t.Info()&types.IsString != 0:
		if c.Value.Kind() == constant.String {
			return mkStr(in.ts, constant.StringVal(c.Value))
		}
		// int constant converted to string
		i, _ := constant.Int64Val(constant.ToInt(c.Value))
		return mkStr(in.ts, string(rune(i)))
	}
	panic(fmt.Sprintf("constVal: %v", c))
}

func (in *Interp) globalAddr(g *ssa.Global) *Value {
	if in.persistOK[g.Pkg] {
		if p, ok := in.persist[g]; ok {
			return p
		}
	}
	if p, ok := in.globals[g]; ok {
		return p
	}
	in.ensureInit(g.Pkg)
	if in.persistOK[g.Pkg] {
		if p, ok := in.persist[g]; ok {
			return p
		}
	}
	if p, ok := in.globals[g]; ok {
		return p
	}
	return in.allocGlobal(g)
}

func (in *Interp) allocGlobal(g *ssa.Global) *Value {
	p := new(Value)
	*p = in.zero(g.Type().(*types.Pointer).Elem())
	if in.persistOK[g.Pkg] {
		in.persist[g] = p
	} else {
		in.globals[g] = p
	}
	return p
}

// ensureInit runs the synthetic package initializer lazily (variable
// initializers always; user init functions only for allow-listed packages).
func (in *Interp) ensureInit(pkg *ssa.Package) {
	if pkg == nil || in.inited[pkg] {
		return
	}
	in.inited[pkg] = true
	if in.persistOK[pkg] {
		// already initialised in an earlier path of this worker?
		if in.persist[pkg.Var("init$guard")] != nil {
			return
		}
	}
	for _, m := range pkg.Members {
		if g, ok := m.(*ssa.Global); ok {
			if _, ok := in.globals[g]; !ok {
				in.allocGlobal(g)
			}
		}
	}
	initFn := pkg.Func("init")
	if initFn == nil || initFn.Blocks == nil {
		return
	}
	if noInitPkgs[pkg.Pkg.Path()] {
		return
	}
	in.initDepth++
	savedSteps, savedDepth := in.steps, in.depth
	defer func() {
		in.initDepth--
		in.steps, in.depth = savedSteps, savedDepth
		if r := recover(); r != nil {
			if pe, ok := r.(pathEnd); ok && pe.kind == "abort" {
				panic(r)
			}
			// initialisation of a package failed in the engine: its globals stay partially
			// initialised; reported as reduced fidelity
			in.ex.noteInitFailure(pkg.Pkg.Path(), fmt.Sprint(r))
		}
	}()
	g := in.sched.cur
	fr := in.newFrame(g, nil, initFn, nil, nil)
	in.runFrameLoop(fr)
}

var noInitPkgs = map[string]bool{"runtime": true, "internal/abi": true, "internal/cpu": true, "syscall": true,
	"internal/poll": true, "reflect": true, "internal/reflectlite": true, "runtime/debug": true, "internal/runtime/sys": true,
	"internal/godebug": true, "internal/syscall/unix": true, "os/signal": true, "internal/goexperiment": true, "runtime/pprof": true,
	"testing": true, "flag": true, "net": true, "crypto/tls": true, "crypto/x509": true, "net/http": true, "golang.org/x/sys/unix": true,
	"golang.org/x/sys/cpu": true, "internal/runtime/atomic": true}

// user init functions (init#k) that are executed; all others are skipped
var userInitAllow = map[string]bool{"github.com/ozontech/insane-json": true, "github.com/vitkovskii/insane-json": true, "github.com/go-faster/jx": true}


func (in *Interp) newFrame(g *Goroutine, caller *Frame, fn *ssa.Function, args []Value, env []Value) *Frame {
	fi := in.info(fn)
	fr := &Frame{in: in, g: g, caller: caller, fn: fn, info: fi, locals: make([]Value, fi.n), env: env}
	for i, p := range fn.Params {
		fr.locals[fi.idx[p]] = args[i]
	}
	for i, p := range fn.FreeVars {
		fr.locals[fi.idx[p]] = env[i]
	}
	if len(fn.Blocks) > 0 {
		fr.block = fn.Blocks[0]
	}
	return fr
}

func (in *Interp) unsupported(fr *Frame, what string) {
	site := ""
	if fr != nil {
		site = " at " + fr.site()
	}
	panic(pathEnd{"unsupported", what + site})
}

// goPanicf raises an interpreted run-time panic.
func (in *Interp) rtPanic(fr *Frame, msg string) {
	site := ""
	if fr != nil {
		site = fr.site()
	}
	panic(&goPanic{val: Iface{T: rtErrType, V: mkStr(in.ts, msg)}, msg: "runtime error: " + msg, site: site})
}

var rtErrType = types.NewNamed(types.NewTypeName(token.NoPos, nil, "runtime.Error", nil), types.Typ[types.String], nil)

// callFunction dispatches a call to an SSA function with stubs and intrinsics.
func (in *Interp) callFunction(caller *Frame, fn *ssa.Function, args []Value, env []Value) Value {
	name := fn.String()
	if o := fn.Origin(); o != nil {
		name = o.String()
	}
	if in.initDepth > 0 && caller != nil && caller.fn.Synthetic == "package initializer" {
		if fn.Synthetic == "package initializer" {
			return nil // imports are initialised lazily themselves
		}
		if strings.HasPrefix(fn.Name(), "init#") && fn.Pkg != nil && !userInitAllow[fn.Pkg.Pkg.Path()] {
			in.ex.noteInitFailure(fn.Pkg.Pkg.Path(), "user init function skipped")
			return nil
		}
	}
	in.ex.noteFunc(in, fn, name)
	if caller != nil && in.initDepth == 0 {
		if stub, ok := in.cfg.stubFns[name]; ok && caller.fn != stub {
			return in.callFunction(caller, stub, args, nil)
		}
	}
	if fn.Pkg != nil && fn.Pkg.Pkg.Path() == in.cfg.apiPkg {
		return in.callAPI(caller, fn, args)
	}
	if ext, ok := externals[name]; ok {
		return ext(in, caller, fn, args)
	}
	if in.isNoopStub(fn, name) {
		return in.noopStub(caller, fn, name, args)
	}
	if fn.Blocks == nil {
		if in.initDepth > 0 {
			return in.zero(fn.Signature.Results())
		}
		in.unsupported(caller, "external function "+name)
	}
	if fn.Pkg != nil {
		in.ensureInit(fn.Pkg)
	}
	in.depth++
	if in.depth > in.cfg.MaxDepth {
		panic(pathEnd{"unwind-exceeded", "call depth at " + name})
	}
	var g *Goroutine
	if caller != nil {
		g = caller.g
	} else {
		g = in.sched.cur
	}
	fr := in.newFrame(g, caller, fn, args, env)
	in.runFrameLoop(fr)
	in.depth--
	return fr.result
}

func (in *Interp) runFrameLoop(fr *Frame) {
	for fr.block != nil {
		in.runFrame(fr)
	}
	if fr.panicking {
		// panic not recovered: propagate
		panic(fr.panic)
	}
}

// runFrame executes blocks until return; interpreted panics run defers.
func (in *Interp) runFrame(fr *Frame) {
	defer func() {
		if fr.block == nil {
			return // normal return
		}
		r := recover()
		switch p := r.(type) {
		case *goPanic:
			fr.panicking = true
			fr.panic = p
			in.depthFix(fr)
			fr.runDefers()
			fr.block = fr.fn.Recover
			if fr.block == nil && !fr.panicking {
				fr.result = in.zero(fr.fn.Signature.Results())
			}
			if fr.panicking {
				// still panicking after defers: leave frame
				fr.block = nil
			}
		case pathEnd:
			panic(r)
		default:
			if _, ok := r.(*engineBug); !ok {
				r = &engineBug{err: r, istack: in.stack(fr), gstack: string(debug.Stack())}
			}
			panic(r)
		}
	}()
	for {
		// phis of a block are parallel assignments: read all edges before writing any
		if nphi := countPhis(fr.block); nphi > 0 {
			var tmp [8]Value
			vals := tmp[:0]
			for _, instr := range fr.block.Instrs[:nphi] {
				phi := instr.(*ssa.Phi)
				var v Value
				for i, pred := range fr.block.Preds {
					if fr.prev == pred {
						v = fr.get(phi.Edges[i])
						break
					}
				}
				vals = append(vals, v)
			}
			for i, instr := range fr.block.Instrs[:nphi] {
				fr.set(instr.(*ssa.Phi), vals[i])
			}
		}
		for _, instr := range fr.block.Instrs {
			if _, isPhi := instr.(*ssa.Phi); isPhi {
				continue
			}
			fr.curInstr = instr
			in.steps++
			if in.steps > in.cfg.MaxSteps && in.initDepth == 0 {
				panic(pathEnd{"unwind-exceeded", "instruction budget at " + fr.site()})
			}
			switch in.visitInstr(fr, instr) {
			case kReturn:
				fr.block = nil
				return
			case kNext:
			case kJump:
				goto next
			}
		}
		panic("block fell through")
	next:
	}
}

// depthFix restores the call depth counter after a panic unwound callee frames.
func (in *Interp) depthFix(fr *Frame) {
	d := 0
	for f := fr; f != nil; f = f.caller {
		d++
	}
	in.depth = d + fr.g.baseDepth
}

func (fr *Frame) runDefers() {
	for len(fr.defers) > 0 {
		d := fr.defers[len(fr.defers)-1]
		fr.defers = fr.defers[:len(fr.defers)-1]
		fr.runDefer(d)
	}
}

func (fr *Frame) runDefer(d deferred) {
	in := fr.in
	ok := false
	defer func() {
		if ok {
			return
		}
		r := recover()
		if p, isGo := r.(*goPanic); isGo {
			// a deferred call panicked: it replaces the current panic
			fr.panicking = true
			fr.panic = p
			in.depthFix(fr)
			return
		}
		panic(r)
	}()
	in.call(fr, d.fn, d.args, d.site)
	ok = true
}

type engineBug struct {
	err    interface{}
	istack []string
	gstack string
}

func (e *engineBug) String() string {
	g := e.gstack
	// keep the part of the Go stack after the first panic frame
	if i := strings.Index(g, "panic("); i >= 0 {
		g = g[i:]
	}
	if len(g) > 1500 {
		g = g[:1500]
	}
	return fmt.Sprintf("%v\ninterpreted stack:\n  %s\nengine stack:\n%s", e.err, strings.Join(e.istack, "\n  "), g)
}

type cont int

const (
	kNext cont = iota
	kReturn
	kJump
)

func (in *Interp) condBool(fr *Frame, c *Term) bool {
	if c.op == OpTrue {
		return true
	}
	if c.op == OpFalse {
		return false
	}
	return in.path.branch(in, c, fr) == 0
}

func (in *Interp) visitInstr(fr *Frame, instr ssa.Instruction) cont {
	switch instr := instr.(type) {
	case *ssa.DebugRef:
	case *ssa.UnOp:
		fr.set(instr, in.unop(fr, instr, fr.get(instr.X)))
	case *ssa.BinOp:
		fr.set(instr, in.binop(fr, instr.Op, instr.X.Type(), instr.Y.Type(), fr.get(instr.X), fr.get(instr.Y)))
	case *ssa.Call:
		fn, args := in.prepareCall(fr, &instr.Call)
		fr.set(instr, in.call(fr, fn, args, instr))
	case *ssa.ChangeInterface:
		fr.set(instr, fr.get(instr.X))
	case *ssa.ChangeType:
		fr.set(instr, fr.get(instr.X))
	case *ssa.Convert:
		fr.set(instr, in.conv(fr, instr.Type(), instr.X.Type(), fr.get(instr.X)))
	case *ssa.MultiConvert:
		fr.set(instr, in.conv(fr, instr.Type(), instr.X.Type(), fr.get(instr.X)))
	case *ssa.SliceToArrayPointer:
		s := fr.get(instr.X).(Slice)
		n := int(instr.Type().Underlying().(*types.Pointer).Elem().Underlying().(*types.Array).Len())
		if len(s.v) < n {
			in.rtPanic(fr, "cannot convert slice to array pointer: length too short")
		}
		if s.v == nil {
			fr.set(instr, (*Value)(nil))
		} else {
			p := new(Value)
			*p = Array(s.v[:n:n])
			fr.set(instr, p)
		}
	case *ssa.MakeInterface:
		fr.set(instr, Iface{T: instr.X.Type(), V: fr.get(instr.X)})
	case *ssa.Extract:
		fr.set(instr, fr.get(instr.Tuple).(Tuple)[instr.Index])
	case *ssa.Slice:
		fr.set(instr, in.sliceOp(fr, instr))
	case *ssa.Return:
		switch len(instr.Results) {
		case 0:
		case 1:
			fr.result = fr.get(instr.Results[0])
		default:
			res := make(Tuple, len(instr.Results))
			for i, r := range instr.Results {
				res[i] = fr.get(r)
			}
			fr.result = res
		}
		return kReturn
	case *ssa.RunDefers:
		fr.runDefers()
		if fr.panicking {
			panic(fr.panic)
		}
	case *ssa.Panic:
		v := fr.get(instr.X)
		panic(&goPanic{val: v, msg: in.render(v), site: fr.site()})
	case *ssa.Send:
		in.chanSend(fr, fr.get(instr.Chan), fr.get(instr.X))
	case *ssa.Store:
		in.storeTo(fr, fr.get(instr.Addr), fr.get(instr.Val))
	case *ssa.If:
		c := fr.get(instr.Cond).(*Term)
		succ := 1
		if in.condBool(fr, c) {
			succ = 0
		}
		fr.prev, fr.block = fr.block, fr.block.Succs[succ]
		return kJump
	case *ssa.Jump:
		fr.prev, fr.block = fr.block, fr.block.Succs[0]
		return kJump
	case *ssa.Defer:
		fn, args := in.prepareCall(fr, &instr.Call)
		fr.defers = append(fr.defers, deferred{fn, args, instr})
	case *ssa.Go:
		fn, args := in.prepareCall(fr, &instr.Call)
		in.goStmt(fr, fn, args, instr)
	case *ssa.MakeChan:
		n := in.concreteInt(fr, fr.get(instr.Size).(*Term), "chan size")
		fr.set(instr, &Chan{cap: int(n), id: in.sched.newID()})
	case *ssa.Alloc:
		p := new(Value)
		*p = in.zero(instr.Type().Underlying().(*types.Pointer).Elem())
		fr.set(instr, p)
	case *ssa.MakeSlice:
		n := int(in.concreteInt(fr, fr.get(instr.Len).(*Term), "make len"))
		c := int(in.concreteInt(fr, fr.get(instr.Cap).(*Term), "make cap"))
		if n < 0 || c < n {
			in.rtPanic(fr, "makeslice: len out of range")
		}
		if c > 1<<24 {
			in.unsupported(fr, fmt.Sprintf("make of huge slice (%d)", c))
		}
		et := instr.Type().Underlying().(*types.Slice).Elem()
		v := make([]Value, n, c)
		full := v[:c]
		var z Value
		if c > 0 {
			z = in.zero(et)
		}
		for i := range full {
			if i == 0 {
				full[i] = z
			} else {
				full[i] = copyVal(z)
			}
		}
		fr.set(instr, Slice{v})
	case *ssa.MakeMap:
		mt := instr.Type().Underlying().(*types.Map)
		fr.set(instr, &Map{kt: mt.Key(), vt: mt.Elem(), index: map[interface{}]*mapEntry{}})
	case *ssa.Range:
		fr.set(instr, in.rangeIter(fr, fr.get(instr.X)))
	case *ssa.Next:
		fr.set(instr, in.next(fr, instr, fr.get(instr.Iter)))
	case *ssa.FieldAddr:
		p := fr.get(instr.X)
		pp, ok := p.(*Value)
		if !ok || pp == nil {
			in.rtPanic(fr, "invalid memory address or nil pointer dereference")
		}
		fr.set(instr, &(*pp).(Struct)[instr.Field])
	case *ssa.Field:
		fr.set(instr, copyVal(fr.get(instr.X).(Struct)[instr.Field]))
	case *ssa.IndexAddr:
		fr.set(instr, in.indexAddr(fr, instr))
	case *ssa.Index:
		fr.set(instr, in.index(fr, instr))
	case *ssa.Lookup:
		fr.set(instr, in.lookup(fr, instr))
	case *ssa.MapUpdate:
		m := fr.get(instr.Map).(*Map)
		if m == nil {
			in.rtPanic(fr, "assignment to entry in nil map")
		}
		in.mapSet(fr, m, fr.get(instr.Key), copyVal(fr.get(instr.Value)))
	case *ssa.TypeAssert:
		fr.set(instr, in.typeAssert(fr, instr, fr.get(instr.X).(Iface)))
	case *ssa.MakeClosure:
		var env []Value
		for _, b := range instr.Bindings {
			env = append(env, fr.get(b))
		}
		fr.set(instr, &Closure{Fn: instr.Fn.(*ssa.Function), Env: env})
	case *ssa.Phi:
		for i, pred := range instr.Block().Preds {
			if fr.prev == pred {
				fr.set(instr, fr.get(instr.Edges[i]))
				break
			}
		}
	case *ssa.Select:
		fr.set(instr, in.selectOp(fr, instr))
	default:
		panic(fmt.Sprintf("unexpected instruction: %T", instr))
	}
	return kNext
}

// concreteInt returns the value of an int term, case-splitting when it is symbolic.
func (in *Interp) concreteInt(fr *Frame, t *Term, what string) int64 {
	if t.IsConst() {
		return sext(t.k, int(t.w))
	}
	// case split over feasible values (bounded): enumerate with the solver
	return in.path.concretize(in, t, fr, what)
}

func (in *Interp) prepareCall(fr *Frame, call *ssa.CallCommon) (Value, []Value) {
	v := fr.get(call.Value)
	var fn Value
	var args []Value
	if call.Method == nil {
		fn = v
	} else {
		recv := v.(Iface)
		if recv.T == nil {
			in.rtPanic(fr, "invalid memory address or nil pointer dereference (method call on nil interface)")
		}
		m := in.lookupMethod(recv.T, call.Method)
		if m == nil {
			panic(fmt.Sprintf("method %s not found on %s", call.Method.Name(), recv.T))
		}
		fn = m
		args = append(args, recv.V)
	}
	for _, a := range call.Args {
		args = append(args, fr.get(a))
	}
	return fn, args
}

func (in *Interp) lookupMethod(T types.Type, meth *types.Func) *ssa.Function {
	sel := in.prog.MethodSets.MethodSet(T).Lookup(meth.Pkg(), meth.Name())
	if sel == nil {
		return nil
	}
	return in.prog.MethodValue(sel)
}

func (in *Interp) call(fr *Frame, fnv Value, args []Value, site ssa.Instruction) Value {
	switch fn := fnv.(type) {
	case *ssa.Function:
		if fn == nil {
			in.rtPanic(fr, "call of nil function")
		}
		return in.callFunction(fr, fn, args, nil)
	case *Closure:
		return in.callFunction(fr, fn.Fn, args, fn.Env)
	case *ssa.Builtin:
		return in.callBuiltin(fr, fn, args, site)
	case nil:
		in.rtPanic(fr, "invalid memory address or nil pointer dereference (call of nil func)")
	}
	panic(fmt.Sprintf("call of %T", fnv))
}

func (in *Interp) load(fr *Frame, p Value) Value {
	switch p := p.(type) {
	case *Value:
		if p == nil {
			in.rtPanic(fr, "invalid memory address or nil pointer dereference")
		}
		return copyVal(*p)
	case *SymRef:
		return in.symLoad(p)
	case UnsafePtr:
		return in.load(fr, p.p)
	}
	panic(fmt.Sprintf("load from %T at %s", p, fr.site()))
}

func (in *Interp) storeTo(fr *Frame, p Value, v Value) {
	switch p := p.(type) {
	case *Value:
		if p == nil {
			in.rtPanic(fr, "invalid memory address or nil pointer dereference")
		}
		if in.track != nil && in.track.cells[p] {
			in.track.hits++
		}
		storeVal(p, v)
	case *SymRef:
		vt := v.(*Term)
		for i := range p.elems {
			c := in.ts.Eq(p.idx, in.ts.Const(uint64(i), 64))
			p.elems[i] = in.ts.Ite(c, vt, p.elems[i].(*Term))
		}
	default:
		panic(fmt.Sprintf("store to %T at %s", p, fr.site()))
	}
}

func (in *Interp) symLoad(p *SymRef) Value {
	n := len(p.elems)
	if n > 8 {
		// balanced decision tree over the index bits: depth log2(n), and constant
		// runs of a table collapse through ite(c,x,x)=x
		k := 0
		for (1 << uint(k)) < n {
			k++
		}
		return in.symLoadTree(p, 0, k)
	}
	res := p.elems[n-1].(*Term)
	for i := n - 2; i >= 0; i-- {
		c := in.ts.Eq(p.idx, in.ts.Const(uint64(i), 64))
		res = in.ts.Ite(c, p.elems[i].(*Term), res)
	}
	return res
}

func (in *Interp) symLoadTree(p *SymRef, lo, k int) *Term {
	n := len(p.elems)
	if lo >= n {
		return p.elems[n-1].(*Term) // unreachable (index is in range)
	}
	if k == 0 {
		return p.elems[lo].(*Term)
	}
	half := 1 << uint(k-1)
	if lo+half >= n {
		return in.symLoadTree(p, lo, k-1)
	}
	bit := in.ts.Eq(in.ts.Extract(p.idx, k-1, k-1), in.ts.Const(1, 1))
	return in.ts.Ite(bit, in.symLoadTree(p, lo+half, k-1), in.symLoadTree(p, lo, k-1))
}

func isScalarElem(t types.Type) bool {
	b, ok := t.Underlying().(*types.Basic)
	return ok && (b.Info()&(types.IsInteger|types.IsBoolean) != 0)
}

// checkIndex checks 0 <= idx < n (forking into a panic path when symbolic) and
// returns the concrete index or -1 when it stays symbolic.
func (in *Interp) checkIndex(fr *Frame, idx *Term, xt types.Type, n int, keepSym bool) int {
	if idx.w != 64 {
		if b, ok := xt.Underlying().(*types.Basic); ok && isSigned(b) {
			idx = in.ts.SExt(idx, 64)
		} else {
			idx = in.ts.ZExt(idx, 64)
		}
	}
	if idx.IsConst() {
		i := int64(idx.k)
		if i < 0 || i >= int64(n) {
			in.rtPanic(fr, fmt.Sprintf("index out of range [%d] with length %d", i, n))
		}
		return int(i)
	}
	inRange := in.ts.Cmp(OpUlt, idx, in.ts.Const(uint64(n), 64))
	if !in.condBool(fr, inRange) {
		in.rtPanic(fr, fmt.Sprintf("index out of range [symbolic] with length %d", n))
	}
	if keepSym {
		return -1
	}
	return int(in.path.concretize(in, idx, fr, "index"))
}

func (in *Interp) indexAddr(fr *Frame, instr *ssa.IndexAddr) Value {
	x := fr.get(instr.X)
	idx := fr.get(instr.Index).(*Term)
	var elems []Value
	var et types.Type
	switch x := x.(type) {
	case *Value:
		if x == nil {
			in.rtPanic(fr, "invalid memory address or nil pointer dereference")
		}
		elems = (*x).(Array)
		et = instr.X.Type().Underlying().(*types.Pointer).Elem().Underlying().(*types.Array).Elem()
	case Slice:
		elems = x.v
		et = instr.X.Type().Underlying().(*types.Slice).Elem()
	default:
		panic(fmt.Sprintf("indexAddr of %T", x))
	}
	sym := isScalarElem(et)
	i := in.checkIndex(fr, idx, instr.Index.Type(), len(elems), sym)
	if i >= 0 {
		return &elems[i]
	}
	if idx.w != 64 {
		idx = in.ts.ZExt(idx, 64)
	}
	return &SymRef{elems: elems, idx: idx}
}

func (in *Interp) index(fr *Frame, instr *ssa.Index) Value {
	x := fr.get(instr.X)
	idx := fr.get(instr.Index).(*Term)
	switch x := x.(type) {
	case Array:
		et := instr.X.Type().Underlying().(*types.Array).Elem()
		sym := isScalarElem(et)
		i := in.checkIndex(fr, idx, instr.Index.Type(), len(x), sym)
		if i >= 0 {
			return copyVal(x[i])
		}
		return in.symLoad(&SymRef{elems: x, idx: in.ts.ZExt(idx, 64)})
	case Str:
		i := in.checkIndex(fr, idx, instr.Index.Type(), len(x.b), true)
		if i >= 0 {
			return x.b[i]
		}
		return in.symLoad(&SymRef{elems: x.b, idx: in.ts.ZExt(idx, 64)})
	}
	panic(fmt.Sprintf("index of %T", x))
}

func (in *Interp) sliceOp(fr *Frame, instr *ssa.Slice) Value {
	x := fr.get(instr.X)
	var lo, hi, max int64 = 0, -1, -1
	geti := func(v ssa.Value) int64 {
		t := fr.get(v).(*Term)
		if t.w != 64 {
			if b, ok := v.Type().Underlying().(*types.Basic); ok && isSigned(b) {
				t = in.ts.SExt(t, 64)
			} else {
				t = in.ts.ZExt(t, 64)
			}
		}
		return in.concreteIntBounded(fr, t)
	}
	var elems []Value
	isStr := false
	switch x := x.(type) {
	case Str:
		elems = x.b
		isStr = true
	case Slice:
		elems = x.v
	case *Value:
		if x == nil {
			in.rtPanic(fr, "invalid memory address or nil pointer dereference (slice of nil array pointer)")
		}
		elems = (*x).(Array)
	default:
		panic(fmt.Sprintf("slice of %T", x))
	}
	in.sliceLimit = int64(cap(elems))
	if instr.Low != nil {
		lo = geti(instr.Low)
	}
	if instr.High != nil {
		hi = geti(instr.High)
	}
	if instr.Max != nil {
		max = geti(instr.Max)
	}
	l, c := int64(len(elems)), int64(cap(elems))
	if isStr {
		c = l
	}
	if hi < 0 && instr.High == nil {
		hi = l
	}
	if max < 0 && instr.Max == nil {
		max = c
	}
	if max < 0 || max > c {
		in.rtPanic(fr, fmt.Sprintf("slice bounds out of range [::%d] with capacity %d", max, c))
	}
	if hi < 0 || hi > max {
		if isStr {
			in.rtPanic(fr, fmt.Sprintf("slice bounds out of range [:%d] with length %d", hi, l))
		}
		in.rtPanic(fr, fmt.Sprintf("slice bounds out of range [:%d] with capacity %d", hi, max))
	}
	if lo < 0 || lo > hi {
		in.rtPanic(fr, fmt.Sprintf("slice bounds out of range [%d:%d]", lo, hi))
	}
	if isStr {
		return Str{elems[lo:hi:hi]}
	}
	if _, ok := x.(Slice); ok && elems == nil {
		return Slice{}
	}
	return Slice{elems[lo:hi:max]}
}

// concreteIntBounded concretizes a slice bound; values outside [0, sliceLimit]
// are represented by one "out of range" alternative.
func (in *Interp) concreteIntBounded(fr *Frame, t *Term) int64 {
	if t.IsConst() {
		return int64(t.k)
	}
	// fork: in range [0..limit] vs out of range
	lim := in.sliceLimit
	inRange := in.ts.Cmp(OpUle, t, in.ts.Const(uint64(lim), 64))
	if !in.condBool(fr, inRange) {
		return -2 // triggers a bounds panic in the caller
	}
	return in.path.concretize(in, t, fr, "slice bound")
}

func (in *Interp) render(v Value) string {
	switch v := v.(type) {
	case Iface:
		if v.T == nil {
			return "nil"
		}
		return in.render(v.V)
	case Str:
		if s, ok := v.concrete(); ok {
			return s
		}
		return "<symbolic string>"
	case *Term:
		if v.IsConst() {
			if v.w == 0 {
				return fmt.Sprint(v.op == OpTrue)
			}
			return fmt.Sprint(v.k)
		}
		return "<symbolic>"
	case *Value:
		if v == nil {
			return "<nil ptr>"
		}
		// error values: *errors.errorString{s}
		if st, ok := (*v).(Struct); ok && len(st) >= 1 {
			if s, ok := st[0].(Str); ok {
				return in.render(s)
			}
		}
		return "<ptr>"
	case Struct:
		var parts []string
		for _, f := range v {
			parts = append(parts, in.render(f))
		}
		return "{" + strings.Join(parts, " ") + "}"
	}
	return fmt.Sprintf("<%T>", v)
}

func debugf(format string, args ...interface{}) {
	if os.Getenv("GOSYM_DEBUG") != "" {
		fmt.Fprintf(os.Stderr, format+"\n", args...)
	}
}

func countPhis(b *ssa.BasicBlock) int {
	n := 0
	for _, instr := range b.Instrs {
		if _, ok := instr.(*ssa.Phi); !ok {
			break
		}
		n++
	}
	return n
}

// writeTrack: the cells (and maps) reachable from a root object before a closure runs; stores that hit one
// of them while the closure runs are counted (vf.SharedWrites).
type writeTrack struct {
	cells map[*Value]bool
	maps  map[*Map]bool
	hits  int
}

func collectCells(v Value, t *writeTrack, depth int) {
	if depth > 64 {
		return
	}
	switch x := v.(type) {
	case *Value:
		if x == nil || t.cells[x] {
			return
		}
		t.cells[x] = true
		collectInner(x, t, depth)
	case Iface:
		collectCells(x.V, t, depth+1)
	case UnsafePtr:
		collectCells(x.p, t, depth+1)
	case Struct, Array, Slice, Closure:
		tmp := v
		collectInner(&tmp, t, depth)
	case *Map:
		if x == nil || t.maps[x] {
			return
		}
		t.maps[x] = true
		for _, e := range x.entries {
			if !e.deleted {
				collectCells(e.v, t, depth+1)
			}
		}
	}
}

// collectInner walks the value stored in a cell: its sub-cells are addressable (field / element addresses)
func collectInner(cell *Value, t *writeTrack, depth int) {
	switch y := (*cell).(type) {
	case Struct:
		for i := range y {
			t.cells[&y[i]] = true
			collectInner(&y[i], t, depth+1)
		}
	case Array:
		for i := range y {
			t.cells[&y[i]] = true
			collectInner(&y[i], t, depth+1)
		}
	case Slice:
		full := y.v[:cap(y.v)]
		for i := range full {
			t.cells[&full[i]] = true
			collectInner(&full[i], t, depth+1)
		}
	case Closure:
		for _, e := range y.Env {
			collectCells(e, t, depth+1)
		}
	default:
		collectCells(*cell, t, depth+1)
	}
}
