package main

// Intrinsics, summaries and no-op stubs for code that is not interpreted.

import (
	"unsafe"
	"fmt"
	"go/types"
	"math"
	"strings"

	"golang.org/x/tools/go/ssa"
)

type extFn func(in *Interp, fr *Frame, fn *ssa.Function, args []Value) Value

var externals = map[string]extFn{}

func reg(name string, f extFn) { externals[name] = f }

func (in *Interp) isNoopStub(fn *ssa.Function, name string) bool {
	if fn.Pkg == nil && fn.Object() == nil {
		// synthetic wrappers (bound methods, thunks) are interpreted
		return false
	}
	var path string
	if fn.Pkg != nil {
		path = fn.Pkg.Pkg.Path()
	} else if fn.Object() != nil && fn.Object().Pkg() != nil {
		path = fn.Object().Pkg().Path()
	}
	// harness entry points and the functions a spec names explicitly are interpreted even inside a
	// package that is otherwise stubbed out (metrics, loggers)
	if strings.HasPrefix(fn.Name(), "VerifH_") || strings.HasPrefix(fn.Name(), "verif") {
		return false
	}
	for _, p := range in.cfg.noopPrefixes {
		if strings.HasPrefix(path, p) {
			return true
		}
	}
	return false
}

func (in *Interp) noopStub(fr *Frame, fn *ssa.Function, name string, args []Value) Value {
	n := fn.Name()
	if strings.HasPrefix(n, "Panic") || strings.HasPrefix(n, "DPanic") {
		panic(&goPanic{val: Iface{T: rtErrType, V: mkStr(in.ts, "logger panic")}, msg: "logger." + n + " called", site: fr.site()})
	}
	if strings.HasPrefix(n, "Fatal") {
		panic(pathEnd{"exit", "logger." + n + " called at " + fr.site()})
	}
	return in.zero(fn.Signature.Results())
}

func cI(in *Interp, v int64) *Term { return in.ts.Const(uint64(v), 64) }

func bytesOf(v Value) []Value {
	switch x := v.(type) {
	case Str:
		return x.b
	case Slice:
		return x.v
	}
	panic(fmt.Sprintf("bytesOf %T", v))
}

// indexByte builds ite(b0==c,0, ite(b1==c,1, ... -1)).
func (in *Interp) indexByte(b []Value, c *Term) *Term {
	ts := in.ts
	res := ts.Const(^uint64(0), 64)
	for i := len(b) - 1; i >= 0; i-- {
		res = ts.Ite(ts.Eq(b[i].(*Term), c), ts.Const(uint64(i), 64), res)
	}
	return res
}

func (in *Interp) lastIndexByte(b []Value, c *Term) *Term {
	ts := in.ts
	res := ts.Const(^uint64(0), 64)
	for i := 0; i < len(b); i++ {
		res = ts.Ite(ts.Eq(b[i].(*Term), c), ts.Const(uint64(i), 64), res)
	}
	return res
}

func (in *Interp) matchAt(b []Value, i int, sep []Value) *Term {
	ts := in.ts
	res := ts.tt
	for j := range sep {
		res = ts.And(res, ts.Eq(b[i+j].(*Term), sep[j].(*Term)))
		if res.op == OpFalse {
			break
		}
	}
	return res
}

func (in *Interp) indexSeq(b, sep []Value) *Term {
	ts := in.ts
	res := ts.Const(^uint64(0), 64)
	for i := len(b) - len(sep); i >= 0; i-- {
		res = ts.Ite(in.matchAt(b, i, sep), ts.Const(uint64(i), 64), res)
	}
	return res
}

func (in *Interp) lastIndexSeq(b, sep []Value) *Term {
	ts := in.ts
	res := ts.Const(^uint64(0), 64)
	for i := 0; i+len(sep) <= len(b); i++ {
		res = ts.Ite(in.matchAt(b, i, sep), ts.Const(uint64(i), 64), res)
	}
	return res
}

func (in *Interp) bytesEq(a, b []Value) *Term {
	if len(a) != len(b) {
		return in.ts.ff
	}
	return in.matchAt(a, 0, b)
}

func (in *Interp) countByte(b []Value, c *Term) *Term {
	ts := in.ts
	res := ts.Const(0, 64)
	for i := range b {
		res = ts.Bin(OpAdd, res, ts.Ite(ts.Eq(b[i].(*Term), c), ts.Const(1, 64), ts.Const(0, 64)))
	}
	return res
}

func (in *Interp) compareBytes(a, b []Value) *Term {
	ts := in.ts
	n := min(len(a), len(b))
	var res *Term
	switch {
	case len(a) < len(b):
		res = ts.Const(^uint64(0), 64)
	case len(a) > len(b):
		res = ts.Const(1, 64)
	default:
		res = ts.Const(0, 64)
	}
	for i := n - 1; i >= 0; i-- {
		x, y := a[i].(*Term), b[i].(*Term)
		res = ts.Ite(ts.Eq(x, y), res, ts.Ite(ts.Cmp(OpUlt, x, y), ts.Const(^uint64(0), 64), ts.Const(1, 64)))
	}
	return res
}

func init() {
	// ---- internal/bytealg, bytes, strings ----
	ib := func(in *Interp, fr *Frame, fn *ssa.Function, a []Value) Value {
		return in.indexByte(bytesOf(a[0]), a[1].(*Term))
	}
	for _, n := range []string{"internal/bytealg.IndexByte", "internal/bytealg.IndexByteString", "bytes.IndexByte", "strings.IndexByte"} {
		reg(n, ib)
	}
	lib := func(in *Interp, fr *Frame, fn *ssa.Function, a []Value) Value {
		return in.lastIndexByte(bytesOf(a[0]), a[1].(*Term))
	}
	for _, n := range []string{"internal/bytealg.LastIndexByte", "internal/bytealg.LastIndexByteString", "bytes.LastIndexByte", "strings.LastIndexByte"} {
		reg(n, lib)
	}
	idx := func(in *Interp, fr *Frame, fn *ssa.Function, a []Value) Value {
		return in.indexSeq(bytesOf(a[0]), bytesOf(a[1]))
	}
	for _, n := range []string{"internal/bytealg.Index", "internal/bytealg.IndexString", "bytes.Index", "strings.Index"} {
		reg(n, idx)
	}
	lidx := func(in *Interp, fr *Frame, fn *ssa.Function, a []Value) Value {
		return in.lastIndexSeq(bytesOf(a[0]), bytesOf(a[1]))
	}
	reg("bytes.LastIndex", lidx)
	reg("strings.LastIndex", lidx)
	cnt := func(in *Interp, fr *Frame, fn *ssa.Function, a []Value) Value {
		return in.countByte(bytesOf(a[0]), a[1].(*Term))
	}
	reg("internal/bytealg.Count", cnt)
	reg("internal/bytealg.CountString", cnt)
	reg("internal/bytealg.Compare", func(in *Interp, fr *Frame, fn *ssa.Function, a []Value) Value {
		return in.compareBytes(bytesOf(a[0]), bytesOf(a[1]))
	})
	reg("bytes.Compare", externals["internal/bytealg.Compare"])
	reg("strings.Compare", externals["internal/bytealg.Compare"])
	reg("internal/bytealg.CompareString", externals["internal/bytealg.Compare"])
	reg("runtime.cmpstring", externals["internal/bytealg.Compare"])
	reg("bytes.Equal", func(in *Interp, fr *Frame, fn *ssa.Function, a []Value) Value {
		return in.bytesEq(bytesOf(a[0]), bytesOf(a[1]))
	})
	reg("internal/bytealg.Equal", externals["bytes.Equal"])
	reg("bytes.HasPrefix", func(in *Interp, fr *Frame, fn *ssa.Function, a []Value) Value {
		s, p := bytesOf(a[0]), bytesOf(a[1])
		if len(s) < len(p) {
			return in.ts.ff
		}
		return in.matchAt(s, 0, p)
	})
	reg("strings.HasPrefix", externals["bytes.HasPrefix"])
	reg("bytes.HasSuffix", func(in *Interp, fr *Frame, fn *ssa.Function, a []Value) Value {
		s, p := bytesOf(a[0]), bytesOf(a[1])
		if len(s) < len(p) {
			return in.ts.ff
		}
		return in.matchAt(s, len(s)-len(p), p)
	})
	reg("strings.HasSuffix", externals["bytes.HasSuffix"])
	reg("bytes.Contains", func(in *Interp, fr *Frame, fn *ssa.Function, a []Value) Value {
		r := in.indexSeq(bytesOf(a[0]), bytesOf(a[1]))
		return in.ts.Not(in.ts.Eq(r, in.ts.Const(^uint64(0), 64)))
	})
	reg("strings.Contains", externals["bytes.Contains"])
	// IndexAny & co. with concrete ASCII-only character sets: bytes >= 0x80 never match, so the
	// result is the first byte that is a member of the set (exact, no UTF-8 forks)
	anyFn := func(last bool, contains bool) extFn {
		return func(in *Interp, fr *Frame, fn *ssa.Function, a []Value) Value {
			chars, ok := a[1].(Str).concrete()
			if ok {
				for i := 0; i < len(chars); i++ {
					if chars[i] >= 0x80 {
						ok = false
					}
				}
			}
			if !ok {
				return in.interpretBody(fr, fn, a)
			}
			ts := in.ts
			b := bytesOf(a[0])
			res := ts.Const(^uint64(0), 64)
			member := func(x *Term) *Term {
				m := ts.ff
				for i := 0; i < len(chars); i++ {
					m = ts.Or(m, ts.Eq(x, ts.Const(uint64(chars[i]), 8)))
				}
				return m
			}
			if last {
				for i := 0; i < len(b); i++ {
					res = ts.Ite(member(b[i].(*Term)), ts.Const(uint64(i), 64), res)
				}
			} else {
				for i := len(b) - 1; i >= 0; i-- {
					res = ts.Ite(member(b[i].(*Term)), ts.Const(uint64(i), 64), res)
				}
			}
			if contains {
				return ts.Not(ts.Eq(res, ts.Const(^uint64(0), 64)))
			}
			return res
		}
	}
	reg("bytes.IndexAny", anyFn(false, false))
	reg("strings.IndexAny", anyFn(false, false))
	reg("bytes.LastIndexAny", anyFn(true, false))
	reg("strings.LastIndexAny", anyFn(true, false))
	reg("bytes.ContainsAny", anyFn(false, true))
	reg("strings.ContainsAny", anyFn(false, true))
	reg("internal/bytealg.MakeNoZero", func(in *Interp, fr *Frame, fn *ssa.Function, a []Value) Value {
		n := int(in.concreteInt(fr, a[0].(*Term), "MakeNoZero"))
		v := make([]Value, n)
		for i := range v {
			v[i] = in.ts.Const(0, 8)
		}
		return Slice{v}
	})
	reg("internal/abi.NoEscape", func(in *Interp, fr *Frame, fn *ssa.Function, a []Value) Value { return a[0] })
	reg("internal/abi.Escape", func(in *Interp, fr *Frame, fn *ssa.Function, a []Value) Value { return a[0] })
	reg("strings.(*Builder).copyCheck", func(in *Interp, fr *Frame, fn *ssa.Function, a []Value) Value { return nil })
	reg("strings.(*Builder).String", func(in *Interp, fr *Frame, fn *ssa.Function, a []Value) Value {
		st := (*a[0].(*Value)).(Struct)
		buf := st[len(st)-1].(Slice)
		return Str{buf.v[:len(buf.v):len(buf.v)]}
	})
	reg("strings.Clone", func(in *Interp, fr *Frame, fn *ssa.Function, a []Value) Value {
		s := a[0].(Str)
		return Str{append([]Value(nil), s.b...)}
	})
	reg("unique.Make", nil)
	delete(externals, "unique.Make")

	// ---- runtime ----
	nop := func(in *Interp, fr *Frame, fn *ssa.Function, a []Value) Value {
		return in.zero(fn.Signature.Results())
	}
	for _, n := range []string{"runtime.KeepAlive", "runtime.SetFinalizer", "runtime.GC", "runtime/debug.SetGCPercent",
		"runtime/debug.FreeOSMemory", "runtime.LockOSThread", "runtime.UnlockOSThread", "runtime/debug.PrintStack",
		"os.Exit_disabled", "internal/race.Acquire", "internal/race.Release", "internal/race.ReleaseMerge", "internal/race.Disable",
		"internal/race.Enable", "internal/race.Read", "internal/race.Write", "internal/race.ReadRange", "internal/race.WriteRange",
		"sync.runtime_registerPoolCleanup", "sync.fatal", "internal/godebug.(*Setting).IncNonDefault", "sync.runtime_notifyListCheck",
		"internal/godebug.registerMetric", "internal/godebug.setUpdate", "time.resetTimer_", "runtime.SetBlockProfileRate", "runtime.SetMutexProfileFraction"} {
		reg(n, nop)
	}
	reg("internal/godebug.(*Setting).Value", func(in *Interp, fr *Frame, fn *ssa.Function, a []Value) Value { return Str{} })
	reg("runtime.Gosched", func(in *Interp, fr *Frame, fn *ssa.Function, a []Value) Value {
		// Gosched hands the processor over: the caller goes to the back of the round-robin order (a
		// spin-wait on Gosched therefore lets the goroutines it waits for run, at no cost in the delay budget)
		s := in.sched
		if len(s.gs) == 1 || s.noYield > 0 || in.initDepth > 0 {
			return nil
		}
		run, _ := s.enabled()
		others := false
		for _, g := range run {
			if g != s.cur {
				others = true
			}
		}
		if !others {
			s.yield(fr, "Gosched")
			return nil
		}
		asked := false
		s.block(fr, "Gosched", func() bool {
			if !asked {
				asked = true
				return false
			}
			return true
		})
		return nil
	})
	reg("runtime.Callers", func(in *Interp, fr *Frame, fn *ssa.Function, a []Value) Value { return cI(in, 0) })
	reg("runtime.GOMAXPROCS", func(in *Interp, fr *Frame, fn *ssa.Function, a []Value) Value { return cI(in, 4) })
	reg("runtime.NumCPU", func(in *Interp, fr *Frame, fn *ssa.Function, a []Value) Value { return cI(in, 4) })
	reg("runtime.NumGoroutine", func(in *Interp, fr *Frame, fn *ssa.Function, a []Value) Value {
		return cI(in, int64(len(in.sched.gs)))
	})
	reg("os.Exit", func(in *Interp, fr *Frame, fn *ssa.Function, a []Value) Value {
		panic(pathEnd{"exit", "os.Exit called at " + fr.site()})
	})
	reg("os.Getenv", func(in *Interp, fr *Frame, fn *ssa.Function, a []Value) Value { return Str{} })
	reg("os.LookupEnv", func(in *Interp, fr *Frame, fn *ssa.Function, a []Value) Value { return Tuple{Str{}, in.ts.ff} })
	reg("os.Getpid", func(in *Interp, fr *Frame, fn *ssa.Function, a []Value) Value { return cI(in, 4242) })
	reg("os.Hostname", func(in *Interp, fr *Frame, fn *ssa.Function, a []Value) Value {
		return Tuple{mkStr(in.ts, "verif-host"), Iface{}}
	})

	// ---- math ----
	f1 := func(f func(float64) float64) extFn {
		return func(in *Interp, fr *Frame, fn *ssa.Function, a []Value) Value { return f(a[0].(float64)) }
	}
	reg("math.Floor", f1(math.Floor))
	reg("math.Ceil", f1(math.Ceil))
	reg("math.Trunc", f1(math.Trunc))
	reg("math.Sqrt", f1(math.Sqrt))
	reg("math.Abs", f1(math.Abs))
	reg("math.Log", f1(math.Log))
	reg("math.Log2", f1(math.Log2))
	reg("math.Log10", f1(math.Log10))
	reg("math.Exp", f1(math.Exp))
	reg("math.Round", f1(math.Round))
	reg("math.IsNaN", func(in *Interp, fr *Frame, fn *ssa.Function, a []Value) Value {
		return in.ts.Bool(math.IsNaN(a[0].(float64)))
	})
	reg("math.IsInf", func(in *Interp, fr *Frame, fn *ssa.Function, a []Value) Value {
		return in.ts.Bool(math.IsInf(a[0].(float64), int(sext(a[1].(*Term).k, 64))))
	})
	reg("math.Pow", func(in *Interp, fr *Frame, fn *ssa.Function, a []Value) Value {
		return math.Pow(a[0].(float64), a[1].(float64))
	})
	reg("math.Mod", func(in *Interp, fr *Frame, fn *ssa.Function, a []Value) Value {
		return math.Mod(a[0].(float64), a[1].(float64))
	})
	reg("math.Inf", func(in *Interp, fr *Frame, fn *ssa.Function, a []Value) Value {
		return math.Inf(int(sext(a[0].(*Term).k, 64)))
	})
	reg("math.NaN", func(in *Interp, fr *Frame, fn *ssa.Function, a []Value) Value { return math.NaN() })
	reg("math.Float64bits", func(in *Interp, fr *Frame, fn *ssa.Function, a []Value) Value {
		return in.ts.Const(math.Float64bits(a[0].(float64)), 64)
	})
	reg("math.Float64frombits", func(in *Interp, fr *Frame, fn *ssa.Function, a []Value) Value {
		t := a[0].(*Term)
		if !t.IsConst() {
			in.unsupported(fr, "Float64frombits of symbolic value")
		}
		return math.Float64frombits(t.k)
	})
	reg("math.Float32bits", func(in *Interp, fr *Frame, fn *ssa.Function, a []Value) Value {
		return in.ts.Const(uint64(math.Float32bits(float32(a[0].(float64)))), 32)
	})
	reg("math.Float32frombits", func(in *Interp, fr *Frame, fn *ssa.Function, a []Value) Value {
		t := a[0].(*Term)
		if !t.IsConst() {
			in.unsupported(fr, "Float32frombits of symbolic value")
		}
		return float64(math.Float32frombits(uint32(t.k)))
	})

	// ---- math/bits (bodies are pure Go; a few fast intrinsics for symbolic args) ----
	reg("math/bits.Len", func(in *Interp, fr *Frame, fn *ssa.Function, a []Value) Value { return in.bitsLen(a[0].(*Term)) })
	reg("math/bits.Len64", externals["math/bits.Len"])
	reg("math/bits.Len32", externals["math/bits.Len"])
	reg("math/bits.Len16", externals["math/bits.Len"])
	reg("math/bits.Len8", externals["math/bits.Len"])

	// ---- sync ----
	reg("(*sync.Mutex).Lock", func(in *Interp, fr *Frame, fn *ssa.Function, a []Value) Value {
		in.mutexLock(fr, a[0].(*Value), false)
		return nil
	})
	reg("(*sync.Mutex).Unlock", func(in *Interp, fr *Frame, fn *ssa.Function, a []Value) Value {
		in.mutexUnlock(fr, a[0].(*Value), false)
		return nil
	})
	reg("(*sync.Mutex).TryLock", func(in *Interp, fr *Frame, fn *ssa.Function, a []Value) Value {
		in.sched.yield(fr, "TryLock")
		m := in.mutex(a[0].(*Value))
		if m.locked || m.readers > 0 {
			return in.ts.ff
		}
		m.locked = true
		return in.ts.tt
	})
	reg("(*sync.RWMutex).TryLock", externals["(*sync.Mutex).TryLock"])
	reg("(*sync.RWMutex).TryRLock", func(in *Interp, fr *Frame, fn *ssa.Function, a []Value) Value {
		in.sched.yield(fr, "TryRLock")
		m := in.mutex(a[0].(*Value))
		if m.locked {
			return in.ts.ff
		}
		m.readers++
		return in.ts.tt
	})
	reg("(*sync.RWMutex).Lock", externals["(*sync.Mutex).Lock"])
	reg("(*sync.RWMutex).Unlock", externals["(*sync.Mutex).Unlock"])
	reg("(*sync.RWMutex).RLock", func(in *Interp, fr *Frame, fn *ssa.Function, a []Value) Value {
		in.mutexLock(fr, a[0].(*Value), true)
		return nil
	})
	reg("(*sync.RWMutex).RUnlock", func(in *Interp, fr *Frame, fn *ssa.Function, a []Value) Value {
		in.mutexUnlock(fr, a[0].(*Value), true)
		return nil
	})
	reg("(*sync.Cond).Wait", func(in *Interp, fr *Frame, fn *ssa.Function, a []Value) Value {
		in.condWait(fr, a[0].(*Value))
		return nil
	})
	reg("(*sync.Cond).Signal", func(in *Interp, fr *Frame, fn *ssa.Function, a []Value) Value {
		in.sched.yield(fr, "Cond.Signal")
		c := in.cond(a[0].(*Value))
		if len(c.waiters) > 0 {
			c.waiters = c.waiters[1:]
		}
		return nil
	})
	reg("(*sync.Cond).Broadcast", func(in *Interp, fr *Frame, fn *ssa.Function, a []Value) Value {
		in.sched.yield(fr, "Cond.Broadcast")
		in.cond(a[0].(*Value)).waiters = nil
		return nil
	})
	reg("(*sync.WaitGroup).Add", func(in *Interp, fr *Frame, fn *ssa.Function, a []Value) Value {
		in.sched.yield(fr, "WaitGroup.Add")
		c := in.wg(a[0].(*Value))
		*c += int(in.concreteInt(fr, a[1].(*Term), "wg delta"))
		if *c < 0 {
			in.rtPanicMsg(fr, "sync: negative WaitGroup counter")
		}
		return nil
	})
	reg("(*sync.WaitGroup).Done", func(in *Interp, fr *Frame, fn *ssa.Function, a []Value) Value {
		in.sched.yield(fr, "WaitGroup.Done")
		c := in.wg(a[0].(*Value))
		*c--
		if *c < 0 {
			in.rtPanicMsg(fr, "sync: negative WaitGroup counter")
		}
		return nil
	})
	reg("(*sync.WaitGroup).Wait", func(in *Interp, fr *Frame, fn *ssa.Function, a []Value) Value {
		in.sched.yield(fr, "WaitGroup.Wait")
		c := in.wg(a[0].(*Value))
		in.sched.block(fr, "WaitGroup.Wait", func() bool { return *c == 0 })
		return nil
	})
	reg("(*sync.Once).Do", func(in *Interp, fr *Frame, fn *ssa.Function, a []Value) Value {
		p := a[0].(*Value)
		in.sched.yield(fr, "Once.Do")
		if in.onceDone[p] {
			return nil
		}
		in.onceDone[p] = true
		in.call(fr, a[1], nil, nil)
		return nil
	})
	reg("(*sync.Pool).Get", func(in *Interp, fr *Frame, fn *ssa.Function, a []Value) Value {
		p := a[0].(*Value)
		items := in.pools[p]
		if n := len(items); n > 0 {
			k := n - 1
			if in.cfg.PoolNondet && n > 1 {
				k = in.path.choose(in, DEnv, n, fr)
			}
			v := items[k]
			in.pools[p] = append(append([]Value(nil), items[:k]...), items[k+1:]...)
			return v
		}
		st := (*p).(Struct)
		newFn := st[len(st)-1]
		if newFn == nil {
			return Iface{}
		}
		return in.call(fr, newFn, nil, nil)
	})
	reg("(*sync.Pool).Put", func(in *Interp, fr *Frame, fn *ssa.Function, a []Value) Value {
		p := a[0].(*Value)
		if v, ok := a[1].(Iface); ok && v.T == nil {
			return nil
		}
		in.pools[p] = append(in.pools[p], a[1])
		return nil
	})

	// ---- sync/atomic ----
	for _, ty := range []string{"Int32", "Int64", "Uint32", "Uint64", "Uintptr", "Pointer"} {
		ty := ty
		reg("sync/atomic.Load"+ty, func(in *Interp, fr *Frame, fn *ssa.Function, a []Value) Value {
			in.sched.yield(fr, "atomic.Load")
			return in.load(fr, a[0])
		})
		reg("sync/atomic.Store"+ty, func(in *Interp, fr *Frame, fn *ssa.Function, a []Value) Value {
			in.sched.yield(fr, "atomic.Store")
			in.storeTo(fr, a[0], a[1])
			return nil
		})
		reg("sync/atomic.Swap"+ty, func(in *Interp, fr *Frame, fn *ssa.Function, a []Value) Value {
			in.sched.yield(fr, "atomic.Swap")
			old := in.load(fr, a[0])
			in.storeTo(fr, a[0], a[1])
			return old
		})
		reg("sync/atomic.CompareAndSwap"+ty, func(in *Interp, fr *Frame, fn *ssa.Function, a []Value) Value {
			in.sched.yield(fr, "atomic.CAS")
			old := in.load(fr, a[0])
			eq := in.equals(nil, old, a[1])
			if in.condBool(fr, eq) {
				in.storeTo(fr, a[0], a[2])
				return in.ts.tt
			}
			return in.ts.ff
		})
		if ty != "Pointer" {
			reg("sync/atomic.Add"+ty, func(in *Interp, fr *Frame, fn *ssa.Function, a []Value) Value {
				in.sched.yield(fr, "atomic.Add")
				old := in.load(fr, a[0]).(*Term)
				nv := in.ts.Bin(OpAdd, old, a[1].(*Term))
				in.storeTo(fr, a[0], nv)
				return nv
			})
			reg("sync/atomic.And"+ty, func(in *Interp, fr *Frame, fn *ssa.Function, a []Value) Value {
				in.sched.yield(fr, "atomic.And")
				old := in.load(fr, a[0]).(*Term)
				in.storeTo(fr, a[0], in.ts.Bin(OpBAnd, old, a[1].(*Term)))
				return old
			})
			reg("sync/atomic.Or"+ty, func(in *Interp, fr *Frame, fn *ssa.Function, a []Value) Value {
				in.sched.yield(fr, "atomic.Or")
				old := in.load(fr, a[0]).(*Term)
				in.storeTo(fr, a[0], in.ts.Bin(OpBOr, old, a[1].(*Term)))
				return old
			})
		}
	}
	// atomic.Value: store the interface in field 0
	reg("(*sync/atomic.Value).Load", func(in *Interp, fr *Frame, fn *ssa.Function, a []Value) Value {
		in.sched.yield(fr, "atomic.Value.Load")
		st := (*a[0].(*Value)).(Struct)
		return st[0]
	})
	reg("(*sync/atomic.Value).Store", func(in *Interp, fr *Frame, fn *ssa.Function, a []Value) Value {
		in.sched.yield(fr, "atomic.Value.Store")
		st := (*a[0].(*Value)).(Struct)
		st[0] = a[1]
		return nil
	})
	reg("(*sync/atomic.Value).Swap", func(in *Interp, fr *Frame, fn *ssa.Function, a []Value) Value {
		in.sched.yield(fr, "atomic.Value.Swap")
		st := (*a[0].(*Value)).(Struct)
		old := st[0]
		st[0] = a[1]
		return old
	})

	// ---- time ----
	reg("time.Now", func(in *Interp, fr *Frame, fn *ssa.Function, a []Value) Value { return in.timeNow() })
	reg("time.runtimeNano", func(in *Interp, fr *Frame, fn *ssa.Function, a []Value) Value { return cI(in, in.sched.clock) })
	reg("time.Since", func(in *Interp, fr *Frame, fn *ssa.Function, a []Value) Value {
		sub := in.findMethod("time", "Time", "Sub")
		return in.callFunction(fr, sub, []Value{in.timeNow(), a[0]}, nil)
	})
	reg("time.Until", func(in *Interp, fr *Frame, fn *ssa.Function, a []Value) Value {
		sub := in.findMethod("time", "Time", "Sub")
		return in.callFunction(fr, sub, []Value{a[0], in.timeNow()}, nil)
	})
	reg("time.Sleep", func(in *Interp, fr *Frame, fn *ssa.Function, a []Value) Value {
		d := in.concreteInt(fr, a[0].(*Term), "sleep duration")
		in.sched.sleep(fr, d)
		return nil
	})
	reg("time.NewTimer", func(in *Interp, fr *Frame, fn *ssa.Function, a []Value) Value {
		d := in.concreteInt(fr, a[0].(*Term), "timer duration")
		return in.newTimer(fr, fn, d, nil)
	})
	reg("time.NewTicker", func(in *Interp, fr *Frame, fn *ssa.Function, a []Value) Value {
		d := in.concreteInt(fr, a[0].(*Term), "ticker period")
		if d <= 0 {
			in.rtPanic(fr, "non-positive interval for NewTicker")
		}
		pt := fn.Signature.Results().At(0).Type().(*types.Pointer)
		p := new(Value)
		*p = in.zero(pt.Elem())
		ch := &Chan{cap: 1, id: in.sched.newID()}
		(*p).(Struct)[0] = ch
		in.armTicker(p, ch, d)
		return p
	})
	reg("(*time.Ticker).Stop", func(in *Interp, fr *Frame, fn *ssa.Function, a []Value) Value {
		p := a[0].(*Value)
		if t, ok := in.timerOf[p]; ok {
			t.dead = true
			t.label = "stopped"
		}
		return nil
	})
	reg("time.After", func(in *Interp, fr *Frame, fn *ssa.Function, a []Value) Value {
		d := in.concreteInt(fr, a[0].(*Term), "timer duration")
		tp := in.newTimer(fr, in.findFunc("time", "NewTimer"), d, nil).(*Value)
		return (*tp).(Struct)[0]
	})
	reg("time.AfterFunc", func(in *Interp, fr *Frame, fn *ssa.Function, a []Value) Value {
		d := in.concreteInt(fr, a[0].(*Term), "timer duration")
		return in.newTimer(fr, in.findFunc("time", "NewTimer"), d, a[1])
	})
	reg("(*time.Timer).Stop", func(in *Interp, fr *Frame, fn *ssa.Function, a []Value) Value {
		p := a[0].(*Value)
		if t, ok := in.timerOf[p]; ok && !t.dead {
			t.dead = true
			return in.ts.tt
		}
		return in.ts.ff
	})
	reg("(*time.Timer).Reset", func(in *Interp, fr *Frame, fn *ssa.Function, a []Value) Value {
		p := a[0].(*Value)
		d := in.concreteInt(fr, a[1].(*Term), "timer duration")
		active := false
		if t, ok := in.timerOf[p]; ok && !t.dead {
			t.dead = true
			active = true
		}
		ch := (*p).(Struct)[0].(*Chan)
		in.armTimer(p, ch, d, nil, fr)
		return in.ts.Bool(active)
	})
}

func (in *Interp) findMethod(pkg, typ, name string) *ssa.Function {
	for _, p := range in.prog.AllPackages() {
		if p.Pkg.Path() == pkg {
			T := p.Type(typ).Type()
			for _, t := range []types.Type{T, types.NewPointer(T)} {
				ms := in.prog.MethodSets.MethodSet(t)
				for i := 0; i < ms.Len(); i++ {
					if ms.At(i).Obj().Name() == name {
						return in.prog.MethodValue(ms.At(i))
					}
				}
			}
		}
	}
	panic("findMethod " + pkg + "." + typ + "." + name)
}

const (
	timeHasMonotonic = 1 << 63
	timeWallToInt    = (1884*365 + 1884/4 - 1884/100 + 1884/400) * 86400 // seconds year 1 .. 1885
	timeUnixToInt    = (1969*365 + 1969/4 - 1969/100 + 1969/400) * 86400
)

// timeNow builds a time.Time with a monotonic reading from the logical clock.
func (in *Interp) timeNow() Value {
	ns := in.sched.clock
	sec := ns/1e9 + timeUnixToInt - timeWallToInt
	nsec := ns % 1e9
	wall := uint64(timeHasMonotonic) | uint64(sec)<<30 | uint64(nsec)
	mono := ns - 1_600_000_000_000_000_000
	return Struct{in.ts.Const(wall, 64), in.ts.Const(uint64(mono), 64), (*Value)(nil)}
}

func (in *Interp) newTimer(fr *Frame, newTimerFn *ssa.Function, d int64, f Value) Value {
	// result type *time.Timer { C <-chan Time; initTimer bool / r runtimeTimer ... }
	pt := newTimerFn.Signature.Results().At(0).Type().(*types.Pointer)
	p := new(Value)
	*p = in.zero(pt.Elem())
	ch := &Chan{cap: 1, id: in.sched.newID()}
	(*p).(Struct)[0] = ch
	in.armTimer(p, ch, d, f, fr)
	return p
}

func (in *Interp) armTimer(p *Value, ch *Chan, d int64, f Value, fr *Frame) {
	s := in.sched
	if d < 0 {
		d = 0
	}
	t := &timerEnt{id: s.newID(), when: s.clock + d}
	t.fire = func() {
		if f != nil {
			// AfterFunc: run in its own goroutine
			in.goStmtDetached(f)
			return
		}
		if len(ch.buf) < ch.cap {
			ch.buf = append(ch.buf, in.timeNow())
		}
	}
	s.timers = append(s.timers, t)
	in.timerOf[p] = t
}

// armTicker: a timer that delivers (dropping ticks when the receiver is slow) and re-arms itself
func (in *Interp) armTicker(p *Value, ch *Chan, d int64) {
	s := in.sched
	t := &timerEnt{id: s.newID(), when: s.clock + d}
	t.fire = func() {
		if len(ch.buf) < ch.cap {
			ch.buf = append(ch.buf, in.timeNow())
		}
		if t.label != "stopped" {
			in.armTicker(p, ch, d)
		}
	}
	s.timers = append(s.timers, t)
	in.timerOf[p] = t
}

func (in *Interp) goStmtDetached(f Value) {
	in.unsupported(nil, "time.AfterFunc firing")
}

// ---- sync helpers ----

func (in *Interp) mutex(p *Value) *mutexState {
	m, ok := in.sched.mutexes[p]
	if !ok {
		m = &mutexState{}
		in.sched.mutexes[p] = m
	}
	return m
}

func (in *Interp) mutexLock(fr *Frame, p *Value, read bool) {
	if p == nil {
		in.rtPanic(fr, "invalid memory address or nil pointer dereference (nil mutex)")
	}
	s := in.sched
	s.yield(fr, "Lock")
	m := in.mutex(p)
	if read {
		s.block(fr, "RLock", func() bool { return !m.locked })
		m.readers++
		return
	}
	s.block(fr, "Lock", func() bool { return !m.locked && m.readers == 0 })
	m.locked = true
	m.owner = s.cur.id
}

func (in *Interp) mutexUnlock(fr *Frame, p *Value, read bool) {
	if p == nil {
		in.rtPanic(fr, "invalid memory address or nil pointer dereference (nil mutex)")
	}
	if yieldBeforeRelease {
		in.sched.yield(fr, "Unlock")
	}
	// no scheduling point before a release: a switch here commutes with a switch before the
	// previous visible operation of this goroutine (reduction; acquire-like operations keep theirs)
	m := in.mutex(p)
	if read {
		if m.readers == 0 {
			panic(pathEnd{"panic", "fatal error: sync: RUnlock of unlocked RWMutex at " + fr.site()})
		}
		m.readers--
		return
	}
	if !m.locked {
		panic(pathEnd{"panic", "fatal error: sync: unlock of unlocked mutex at " + fr.site()})
	}
	m.locked = false
}

func (in *Interp) cond(p *Value) *condState {
	c, ok := in.sched.conds[p]
	if !ok {
		c = &condState{}
		in.sched.conds[p] = c
	}
	return c
}

func (in *Interp) condWait(fr *Frame, p *Value) {
	s := in.sched
	s.yield(fr, "Cond.Wait") // the window between the caller's check and the wait is a scheduling point
	c := in.cond(p)
	st := (*p).(Struct)
	var L Iface
	for _, f := range st {
		if iv, ok := f.(Iface); ok {
			L = iv
			break
		}
	}
	g := s.cur
	// atomically: enqueue + unlock
	s.noYield++
	c.waiters = append(c.waiters, g)
	in.invokeNoArg(fr, L, "Unlock")
	s.noYield--
	s.block(fr, "Cond.Wait", func() bool {
		for _, w := range c.waiters {
			if w == g {
				return false
			}
		}
		return true
	})
	in.invokeNoArg(fr, L, "Lock")
}

func (in *Interp) invokeNoArg(fr *Frame, recv Iface, name string) {
	if recv.T == nil {
		in.rtPanic(fr, "nil Locker")
	}
	ms := in.prog.MethodSets.MethodSet(recv.T)
	for i := 0; i < ms.Len(); i++ {
		if ms.At(i).Obj().Name() == name {
			in.callFunction(fr, in.prog.MethodValue(ms.At(i)), []Value{recv.V}, nil)
			return
		}
	}
	panic("invokeNoArg: no method " + name)
}

func (in *Interp) wg(p *Value) *int {
	c, ok := in.sched.wgs[p]
	if !ok {
		c = new(int)
		in.sched.wgs[p] = c
	}
	return c
}

// bitsLen builds bits.Len as an ite chain for symbolic arguments.
func (in *Interp) bitsLen(x *Term) *Term {
	ts := in.ts
	w := int(x.w)
	res := ts.Const(0, 64)
	for i := 0; i < w; i++ {
		// if bit i is set, length is at least i+1; later (higher) bits override
		bit := ts.Extract(x, i, i)
		res = ts.Ite(ts.Eq(bit, ts.Const(1, 1)), ts.Const(uint64(i+1), 64), res)
	}
	return res
}

// interpretBody runs the real body of a function that has an intrinsic (fallback).
func (in *Interp) interpretBody(fr *Frame, fn *ssa.Function, args []Value) Value {
	if fn.Blocks == nil {
		in.unsupported(fr, "external function "+fn.String())
	}
	in.depth++
	nfr := in.newFrame(fr.g, fr, fn, args, nil)
	in.runFrameLoop(nfr)
	in.depth--
	return nfr.result
}

// ---- fmt summaries: formatted natively when the arguments are concrete ----

func (in *Interp) nativeArg(fr *Frame, v Value, depth int) interface{} {
	iv, ok := v.(Iface)
	if !ok {
		return in.nativeVal(fr, nil, v, depth)
	}
	if iv.T == nil {
		return nil
	}
	// error / Stringer
	if depth < 3 {
		for _, name := range []string{"Error", "String"} {
			ms := in.prog.MethodSets.MethodSet(iv.T)
			for i := 0; i < ms.Len(); i++ {
				if ms.At(i).Obj().Name() == name {
					sig := ms.At(i).Obj().Type().(*types.Signature)
					if sig.Params().Len() == 0 && sig.Results().Len() == 1 {
						if b, ok := sig.Results().At(0).Type().Underlying().(*types.Basic); ok && b.Kind() == types.String {
							if isNilPtr(iv.V) {
								return "<nil>"
							}
							res := in.callFunction(fr, in.prog.MethodValue(ms.At(i)), []Value{iv.V}, nil)
							if s, ok := res.(Str).concrete(); ok {
								return fmtStringer(s)
							}
							return fmtStringer("<symbolic>")
						}
					}
				}
			}
		}
	}
	return in.nativeVal(fr, iv.T, iv.V, depth)
}

type fmtStringer string

func (s fmtStringer) String() string { return string(s) }
func (s fmtStringer) Error() string  { return string(s) }

func (in *Interp) nativeVal(fr *Frame, t types.Type, v Value, depth int) interface{} {
	switch x := v.(type) {
	case *Term:
		if !x.IsConst() {
			return "<symbolic>"
		}
		if x.w == 0 {
			return x.op == OpTrue
		}
		signed := true
		if t != nil {
			if b := basicOf(t); b != nil {
				signed = isSigned(b)
				if b.Kind() == types.Uint8 {
					return uint8(x.k)
				}
			}
		}
		if signed {
			return sext(x.k, int(x.w))
		}
		return x.k
	case float64:
		return x
	case Str:
		if s, ok := x.concrete(); ok {
			return s
		}
		return "<symbolic string>"
	case Slice:
		allBytes := len(x.v) > 0
		for _, e := range x.v {
			if tt, ok := e.(*Term); !ok || tt.w != 8 || !tt.IsConst() {
				allBytes = false
			}
		}
		if allBytes {
			b := make([]byte, len(x.v))
			for i, e := range x.v {
				b[i] = byte(e.(*Term).k)
			}
			return b
		}
		if len(x.v) == 0 {
			return []byte{}
		}
		return "<slice>"
	case nil:
		return nil
	}
	return fmt.Sprintf("<%T>", v)
}

func (in *Interp) nativeArgs(fr *Frame, v Value) []interface{} {
	var out []interface{}
	for _, a := range v.(Slice).v {
		out = append(out, in.nativeArg(fr, a, 0))
	}
	return out
}

func (in *Interp) mkError(fr *Frame, msg string) Value {
	return in.callFunction(fr, in.findFunc("errors", "New"), []Value{mkStr(in.ts, msg)}, nil)
}

func (in *Interp) ifaceWrite(fr *Frame, w Value, s string) Value {
	iv := w.(Iface)
	if iv.T == nil {
		in.rtPanic(fr, "nil Writer")
	}
	ms := in.prog.MethodSets.MethodSet(iv.T)
	for i := 0; i < ms.Len(); i++ {
		if ms.At(i).Obj().Name() == "Write" {
			b := mkStr(in.ts, s)
			return in.callFunction(fr, in.prog.MethodValue(ms.At(i)), []Value{iv.V, Slice{b.b}}, nil)
		}
	}
	panic("ifaceWrite: no Write method")
}

func init() {
	format := func(a []Value, in *Interp, fr *Frame) string {
		f, ok := a[0].(Str).concrete()
		if !ok {
			return "<symbolic format>"
		}
		return fmt.Sprintf(f, in.nativeArgs(fr, a[1])...)
	}
	reg("fmt.Sprintf", func(in *Interp, fr *Frame, fn *ssa.Function, a []Value) Value { return mkStr(in.ts, format(a, in, fr)) })
	reg("fmt.Sprint", func(in *Interp, fr *Frame, fn *ssa.Function, a []Value) Value {
		return mkStr(in.ts, fmt.Sprint(in.nativeArgs(fr, a[0])...))
	})
	reg("fmt.Sprintln", func(in *Interp, fr *Frame, fn *ssa.Function, a []Value) Value {
		return mkStr(in.ts, fmt.Sprintln(in.nativeArgs(fr, a[0])...))
	})
	reg("fmt.Errorf", func(in *Interp, fr *Frame, fn *ssa.Function, a []Value) Value {
		f, _ := a[0].(Str).concrete()
		msg := format(a, in, fr)
		// %w: keep the wrapped error reachable for errors.Is/Unwrap
		if strings.Contains(f, "%w") {
			for _, x := range a[1].(Slice).v {
				if iv, ok := x.(Iface); ok && iv.T != nil {
					if types.Implements(iv.T, errorIface) || in.implementsViaMethodSet(iv.T, errorIface) {
						e := in.mkError(fr, msg).(Iface)
						in.wrapped[e.V.(*Value)] = iv
						return e
					}
				}
			}
		}
		return in.mkError(fr, msg)
	})
	reg("fmt.Fprintf", func(in *Interp, fr *Frame, fn *ssa.Function, a []Value) Value {
		return in.ifaceWrite(fr, a[0], format(a[1:], in, fr))
	})
	reg("fmt.Fprintln", func(in *Interp, fr *Frame, fn *ssa.Function, a []Value) Value {
		return in.ifaceWrite(fr, a[0], fmt.Sprintln(in.nativeArgs(fr, a[1])...))
	})
	reg("fmt.Fprint", func(in *Interp, fr *Frame, fn *ssa.Function, a []Value) Value {
		return in.ifaceWrite(fr, a[0], fmt.Sprint(in.nativeArgs(fr, a[1])...))
	})
	for _, n := range []string{"fmt.Printf", "fmt.Println", "fmt.Print"} {
		reg(n, func(in *Interp, fr *Frame, fn *ssa.Function, a []Value) Value {
			return Tuple{in.ts.Const(0, 64), Iface{}}
		})
	}
	// errors.Is / Unwrap with the engine's wrap table
	reg("errors.Unwrap", func(in *Interp, fr *Frame, fn *ssa.Function, a []Value) Value {
		iv := a[0].(Iface)
		if iv.T == nil {
			return Iface{}
		}
		if p, ok := iv.V.(*Value); ok {
			if w, ok := in.wrapped[p]; ok {
				return w
			}
		}
		return in.interpretBody(fr, fn, a)
	})
	reg("errors.As", func(in *Interp, fr *Frame, fn *ssa.Function, a []Value) Value {
		err, target := a[0].(Iface), a[1].(Iface)
		if target.T == nil {
			in.rtPanic(fr, "errors: target cannot be nil")
		}
		pt, ok := target.T.Underlying().(*types.Pointer)
		if !ok {
			in.rtPanic(fr, "errors: target must be a non-nil pointer")
		}
		elem := pt.Elem()
		dst := target.V.(*Value)
		for depth := 0; depth < 20 && err.T != nil; depth++ {
			if it, isIface := elem.Underlying().(*types.Interface); isIface {
				if types.Implements(err.T, it) || in.implementsViaMethodSet(err.T, it) {
					*dst = err
					return in.ts.tt
				}
			} else if types.Identical(err.T, elem) {
				*dst = err.V
				return in.ts.tt
			}
			var next Iface
			found := false
			if p, ok := err.V.(*Value); ok {
				if w, ok := in.wrapped[p]; ok {
					next, found = w, true
				}
			}
			if !found {
				ms := in.prog.MethodSets.MethodSet(err.T)
				for i := 0; i < ms.Len(); i++ {
					if ms.At(i).Obj().Name() == "Unwrap" {
						sig := ms.At(i).Obj().Type().(*types.Signature)
						if sig.Results().Len() == 1 {
							if _, isIface := sig.Results().At(0).Type().Underlying().(*types.Interface); isIface {
								r := in.callFunction(fr, in.prog.MethodValue(ms.At(i)), []Value{err.V}, nil)
								next, found = r.(Iface), true
							}
						}
					}
				}
			}
			if !found {
				return in.ts.ff
			}
			err = next
		}
		return in.ts.ff
	})
	reg("errors.Is", func(in *Interp, fr *Frame, fn *ssa.Function, a []Value) Value {
		err, target := a[0].(Iface), a[1].(Iface)
		for depth := 0; depth < 20; depth++ {
			if err.T == nil {
				return in.ts.Bool(target.T == nil)
			}
			if target.T != nil && types.Identical(err.T, target.T) && types.Comparable(err.T) {
				if in.condBool(fr, in.equals(err.T, err.V, target.V)) {
					return in.ts.tt
				}
			}
			// Unwrap
			var next Iface
			found := false
			if p, ok := err.V.(*Value); ok {
				if w, ok := in.wrapped[p]; ok {
					next, found = w, true
				}
			}
			if !found {
				ms := in.prog.MethodSets.MethodSet(err.T)
				for i := 0; i < ms.Len(); i++ {
					if ms.At(i).Obj().Name() == "Unwrap" {
						sig := ms.At(i).Obj().Type().(*types.Signature)
						if sig.Results().Len() == 1 {
							if _, isIface := sig.Results().At(0).Type().Underlying().(*types.Interface); isIface {
								r := in.callFunction(fr, in.prog.MethodValue(ms.At(i)), []Value{err.V}, nil)
								next, found = r.(Iface), true
							}
						}
					}
				}
			}
			if !found {
				return in.ts.ff
			}
			err = next
		}
		return in.ts.ff
	})
}

var errorIface = types.Universe.Lookup("error").Type().Underlying().(*types.Interface)

func init() {
	// math/rand: an environment decision among representative values
	rf := func(in *Interp, fr *Frame, fn *ssa.Function, a []Value) Value {
		vals := []float64{0, 0.5, 0.999}
		if in.cfg.RandFixed {
			return 0.5
		}
		return vals[in.path.choose(in, DEnv, len(vals), fr)]
	}
	reg("math/rand.Float64", rf)
	reg("math/rand/v2.Float64", rf)
	reg("math/rand.Int63", func(in *Interp, fr *Frame, fn *ssa.Function, a []Value) Value { return cI(in, 4) })
	reg("math/rand.Intn", func(in *Interp, fr *Frame, fn *ssa.Function, a []Value) Value { return cI(in, 0) })
	reg("math/rand.Int", func(in *Interp, fr *Frame, fn *ssa.Function, a []Value) Value { return cI(in, 4) })
}

func init() {
	b2s := func(in *Interp, fr *Frame, fn *ssa.Function, a []Value) Value {
		v := a[0].(Slice).v
		return Str{v[:len(v):len(v)]}
	}
	s2b := func(in *Interp, fr *Frame, fn *ssa.Function, a []Value) Value {
		b := a[0].(Str).b
		if len(b) == 0 {
			return Slice{}
		}
		return Slice{b[:len(b):len(b)]}
	}
	reg("github.com/ozontech/insane-json.toString", b2s)
	reg("github.com/ozontech/insane-json.toByte", s2b)
	reg("github.com/ozontech/file.d/pipeline.ByteToStringUnsafe", b2s)
	reg("github.com/ozontech/file.d/pipeline.StringToByteUnsafe", s2b)
	reg("github.com/ozontech/file.d/pipeline.CloneString", func(in *Interp, fr *Frame, fn *ssa.Function, a []Value) Value {
		return Str{append([]Value(nil), a[0].(Str).b...)}
	})
	reg("github.com/tidwall/gjson.bytesString", b2s)
	reg("github.com/tidwall/gjson.stringBytes", s2b)
}

func init() {
	// sort.Slice / SliceStable: insertion sort through the interpreted less function (stable)
	ss := func(in *Interp, fr *Frame, fn *ssa.Function, a []Value) Value {
		iv := a[0].(Iface)
		sl, ok := iv.V.(Slice)
		if !ok {
			in.unsupported(fr, "sort.Slice of non-slice")
		}
		v := sl.v
		less := func(i, j int) bool {
			r := in.call(fr, a[1], []Value{cI(in, int64(i)), cI(in, int64(j))}, nil)
			return in.condBool(fr, r.(*Term))
		}
		for i := 1; i < len(v); i++ {
			for j := i; j > 0 && less(j, j-1); j-- {
				v[j], v[j-1] = v[j-1], v[j]
			}
		}
		return nil
	}
	reg("sort.Slice", ss)
	reg("sort.SliceStable", ss)
}

func init() {
	reg("math/rand.Uint64", func(in *Interp, fr *Frame, fn *ssa.Function, a []Value) Value { return in.ts.Const(0x1234567, 64) })
	reg("math/rand.Uint32", func(in *Interp, fr *Frame, fn *ssa.Function, a []Value) Value { return in.ts.Const(0x1234567, 32) })
}

func init() {
	reg("internal/stringslite.Clone", func(in *Interp, fr *Frame, fn *ssa.Function, a []Value) Value {
		return Str{append([]Value(nil), a[0].(Str).b...)}
	})
}

// ---- gjson: the two helpers that do pointer arithmetic on string headers ----

func structFieldIndex(t types.Type, name string) int {
	st, ok := t.Underlying().(*types.Struct)
	if !ok {
		return -1
	}
	for i := 0; i < st.NumFields(); i++ {
		if st.Field(i).Name() == name {
			return i
		}
	}
	return -1
}

// offsetWithin returns the offset of sub's first byte inside whole's backing array, or -1.
func offsetWithin(whole, sub []Value) int {
	if len(sub) == 0 || cap(whole) == 0 {
		return -1
	}
	full := whole[:cap(whole)]
	p0 := uintptr(unsafe.Pointer(&full[0]))
	p1 := uintptr(unsafe.Pointer(&sub[0]))
	sz := unsafe.Sizeof(full[0])
	if p1 < p0 || (p1-p0)%sz != 0 {
		return -1
	}
	off := int((p1 - p0) / sz)
	if off >= len(full) {
		return -1
	}
	return off
}

func init() {
	reg("github.com/tidwall/gjson.fillIndex", func(in *Interp, fr *Frame, fn *ssa.Function, a []Value) Value {
		json := a[0].(Str)
		ctxT := fn.Params[1].Type().(*types.Pointer).Elem()
		vi := structFieldIndex(ctxT, "value")
		ci := structFieldIndex(ctxT, "calcd")
		ctx := (*a[1].(*Value)).(Struct)
		resT := ctxT.Underlying().(*types.Struct).Field(vi).Type()
		ri, ii := structFieldIndex(resT, "Raw"), structFieldIndex(resT, "Index")
		val := ctx[vi].(Struct)
		raw := val[ri].(Str)
		calcd := ctx[ci].(*Term)
		if len(raw.b) > 0 && calcd.op == OpFalse {
			idx := offsetWithin(json.b, raw.b)
			if idx < 0 || idx >= len(json.b) {
				idx = 0
			}
			val[ii] = in.ts.Const(uint64(idx), 64)
		}
		return nil
	})
	reg("github.com/tidwall/gjson.getBytes", func(in *Interp, fr *Frame, fn *ssa.Function, a []Value) Value {
		js := a[0].(Slice)
		resT := fn.Signature.Results().At(0).Type()
		if js.v == nil {
			return in.zero(resT)
		}
		get := in.findFunc("github.com/tidwall/gjson", "Get")
		res := in.callFunction(fr, get, []Value{Str{js.v[:len(js.v):len(js.v)]}, a[1]}, nil).(Struct)
		ri, si := structFieldIndex(resT, "Raw"), structFieldIndex(resT, "Str")
		raw, str := res[ri].(Str), res[si].(Str)
		rawCopy := Str{append([]Value(nil), raw.b...)}
		off := offsetWithin(raw.b, str.b)
		if len(str.b) > 0 && off >= 0 && off+len(str.b) <= len(raw.b) {
			res[si] = Str{rawCopy.b[off : off+len(str.b)]}
		} else {
			res[si] = Str{append([]Value(nil), str.b...)}
		}
		res[ri] = rawCopy
		return res
	})
}
