package main

// Path conditions, decisions and the stateless DFS explorer.

import (
	"fmt"
	"os"
	"sort"
	"sync"
	"time"

	"golang.org/x/tools/go/ssa"
)

type DecKind byte

const (
	DBranch DecKind = iota // symbolic branch (2 alternatives)
	DChoose                // harness choice
	DSched                 // scheduler choice
	DEnv                   // environment choice (pool, map order)
	DConc                  // concretisation of a symbolic int
)

type Decision struct {
	Kind   DecKind
	Choice int
	Val    int64 // for DConc: chosen value
}

type Violation struct {
	Kind    string            `json:"kind"` // assert | panic | exit | deadlock | wedge
	Label   string            `json:"label"`
	Site    string            `json:"site"`
	Msg     string            `json:"msg"`
	Harness string            `json:"harness"`
	Inputs  map[string]uint64 `json:"inputs"`
	Decs    []Decision        `json:"decisions"`
	Sig     string            `json:"sig"`
	Obs     []string          `json:"observed,omitempty"`
	Stack   []string          `json:"stack,omitempty"`
}

type Path struct {
	prefix     []Decision
	trace      []Decision
	pc         []Lit
	modelValid bool
	inputs     []*Term // input variables created on this path, in order
	inputNames []string
	reached    map[string]bool
	observed   []string
	unknowns   int
	concrete   map[string]uint64 // non-nil: concrete replay mode
	chosen     map[string]uint64
	known      map[*Term]int64
	decSites   []string
	atoms      map[*Term]bool
	epoch      int
	simpMemo   map[*Term]simpEnt
	obsVals    []obsRec
	asserts    int
	inconclusive int
	vios       []*Violation
}

type Explorer struct {
	cfg  *RunConfig
	prog *ssa.Program
	mu   sync.Mutex
	cond *sync.Cond
	work [][]Decision
	busy int
	stop bool

	// results
	paths       int
	ends        map[string]int
	endSamples  map[string][]string
	decisions   int
	reached     map[string]int
	violations  []*Violation
	vioSeen     map[string]int
	funcs       map[string]bool
	samples     []map[string]interface{}
	queries     int
	solverTime  time.Duration
	nUnknown    int
	solverErrs  int
	maxDepthDec int
	started     time.Time
	skippedInit map[string]bool
	idle        time.Duration
	unknownVios int
	stoppedOnViolation bool
	modelTime   time.Duration
	truncated   bool
}

func (ex *Explorer) noteFunc(in *Interp, fn *ssa.Function, name string) {
	if in.initDepth > 0 {
		return
	}
	if _, ok := in.localFuncs[name]; !ok {
		in.localFuncs[name] = true
	}
}

func (ex *Explorer) noteInitFailure(pkg, why string) {
	ex.mu.Lock()
	if ex.skippedInit == nil {
		ex.skippedInit = map[string]bool{}
	}
	if len(why) > 200 {
		why = why[:200]
	}
	ex.skippedInit[pkg+": "+why] = true
	ex.mu.Unlock()
}

func (p *Path) lits(extra ...Lit) []Lit {
	out := make([]Lit, 0, len(p.pc)+len(extra))
	out = append(out, p.pc...)
	out = append(out, extra...)
	return out
}

// feasible decides pc ∧ lit; installs the model when sat.
func (p *Path) feasible(in *Interp, l Lit) (bool, bool) {
	if l.t.IsConst() {
		return (l.t.op == OpTrue) != l.neg, false
	}
	if p.modelValid {
		v := in.ts.Eval(l.t) != 0
		if v != l.neg {
			return true, false
		}
	}
	r, m := in.sol.Check(p.lits(l), true)
	switch r {
	case Sat:
		in.ts.SetModel(m)
		p.modelValid = true
		return true, true
	case Unknown:
		p.unknowns++
		return true, false // keep the side; model (if any) no longer matches
	}
	return false, false
}

// fork takes a decision among mutually exclusive alternatives described by
// condition literals (a constant-true term for unconditional alternatives).
func (p *Path) fork(in *Interp, kind DecKind, alts []Lit, fr *Frame) int {
	pos := len(p.trace)
	if pos < len(p.prefix) {
		d := p.prefix[pos]
		if d.Kind != kind || d.Choice >= len(alts) {
			panic(fmt.Sprintf("gosym: non-deterministic re-execution at decision %d: recorded kind %d choice %d, now kind %d with %d alts (site %s)", pos, d.Kind, d.Choice, kind, len(alts), siteOf(fr)))
		}
		p.trace = append(p.trace, d)
		l := alts[d.Choice]
		if !l.t.IsConst() {
			p.pc = append(p.pc, l)
			p.modelValid = false
		}
		return d.Choice
	}
	if len(p.trace) >= in.cfg.MaxDecisions {
		panic(pathEnd{"unwind-exceeded", "decision budget"})
	}
	// frontier: find feasible alternatives
	first := -1
	var firstModel map[string]uint64
	var others []int
	savedValid := p.modelValid
	// prefer the alternative satisfied by the cached model (no query)
	modelAlt := -1
	if p.modelValid {
		for i, l := range alts {
			if l.t.IsConst() {
				continue
			}
			if (in.ts.Eval(l.t) != 0) != l.neg {
				modelAlt = i
				break
			}
		}
	}
	_ = savedValid
	for i, l := range alts {
		var ok bool
		if l.t.IsConst() {
			ok = (l.t.op == OpTrue) != l.neg
		} else if i == modelAlt {
			ok = true
		} else {
			r, m := in.sol.Check(p.lits(l), first < 0 && modelAlt < 0)
			switch r {
			case Sat:
				ok = true
				if first < 0 && modelAlt < 0 && m != nil {
					firstModel = m
				}
			case Unknown:
				ok = true
				p.unknowns++
			}
		}
		if ok {
			if first < 0 {
				first = i
			} else {
				others = append(others, i)
			}
		}
	}
	if first < 0 {
		panic(pathEnd{"infeasible", "no feasible alternative"})
	}
	base := append([]Decision(nil), p.trace...)
	for _, o := range others {
		pre := append(append([]Decision(nil), base...), Decision{Kind: kind, Choice: o})
		in.ex.push(pre)
	}
	p.trace = append(p.trace, Decision{Kind: kind, Choice: first})
	if traceDecs {
		p.decSites = append(p.decSites, siteOf(fr))
		if len(p.decSites) == 150 {
			h := map[string]int{}
			for _, s := range p.decSites {
				h[s]++
			}
			fmt.Fprintf(os.Stderr, "gosym: deep path (150 fresh decisions): %v\n", h)
		}
	}
	l := alts[first]
	if !l.t.IsConst() {
		p.pc = append(p.pc, l)
		if first == modelAlt {
			// cached model still satisfies the path condition
		} else if firstModel != nil {
			in.ts.SetModel(firstModel)
			p.modelValid = true
		} else {
			p.modelValid = false
		}
	}
	return first
}

func (p *Path) setKnown(t *Term, v int64) {
	if p.known == nil {
		p.known = map[*Term]int64{}
	}
	p.known[t] = v
	p.epoch++
}

// learn records facts implied by asserting literal (t == val) in the path condition.
func (p *Path) learn(t *Term, val bool) {
	if t.IsConst() {
		return
	}
	if p.atoms == nil {
		p.atoms = map[*Term]bool{}
	}
	switch t.op {
	case OpNot:
		p.learn(t.a, !val)
		return
	case OpAnd:
		if val {
			p.learn(t.a, true)
			p.learn(t.b, true)
		}
	case OpOr:
		if !val {
			p.learn(t.a, false)
			p.learn(t.b, false)
		}
	case OpEq:
		if val && t.a.w != 0 {
			if t.b.IsConst() && !t.a.IsConst() {
				p.setKnown(t.a, sext(t.b.k, int(t.b.w)))
			} else if t.a.IsConst() && !t.b.IsConst() {
				p.setKnown(t.b, sext(t.a.k, int(t.a.w)))
			}
		}
	}
	p.atoms[t] = val
	p.epoch++
}

type simpEnt struct {
	res   *Term
	epoch int
}

// simp rewrites t under the facts learned on this path (sound: every fact is implied by pc).
func (p *Path) simp(in *Interp, t *Term) *Term {
	if t.IsConst() || (len(p.atoms) == 0 && len(p.known) == 0) {
		return t
	}
	if p.simpMemo == nil {
		p.simpMemo = map[*Term]simpEnt{}
	}
	return p.simpRec(in, t, 0)
}

func (p *Path) simpRec(in *Interp, t *Term, depth int) *Term {
	if t.IsConst() {
		return t
	}
	if e, ok := p.simpMemo[t]; ok && (e.epoch == p.epoch || e.res.IsConst()) {
		return e.res
	}
	var res *Term
	if t.w == 0 {
		if v, ok := p.atoms[t]; ok {
			res = in.ts.Bool(v)
		}
	} else if v, ok := p.known[t]; ok {
		res = in.ts.Const(uint64(v), int(t.w))
	}
	if res == nil {
		if t.op == OpVar || t.op == OpBVar || depth > 400 {
			res = t
		} else {
			var a, b, c *Term
			if t.a != nil {
				a = p.simpRec(in, t.a, depth+1)
			}
			// short-circuit ite on a decided condition
			if t.op == OpIte && a.IsConst() {
				if a.op == OpTrue {
					res = p.simpRec(in, t.b, depth+1)
				} else {
					res = p.simpRec(in, t.c, depth+1)
				}
			} else {
				if t.b != nil {
					b = p.simpRec(in, t.b, depth+1)
				}
				if t.c != nil {
					c = p.simpRec(in, t.c, depth+1)
				}
				if a == t.a && b == t.b && c == t.c {
					res = t
				} else {
					res = in.ts.Rebuild(t, a, b, c)
				}
			}
		}
	}
	p.simpMemo[t] = simpEnt{res, p.epoch}
	return res
}

var traceDecs = os.Getenv("GOSYM_TRACE_DECS") != ""

func siteOf(fr *Frame) string {
	if fr == nil {
		return "?"
	}
	return fr.site()
}

// branch forks on a boolean term: returns 0 for true, 1 for false.
func (p *Path) branch(in *Interp, c *Term, fr *Frame) int {
	if p.concrete != nil {
		panic("symbolic branch in concrete mode: " + siteOf(fr))
	}
	c = p.simp(in, c)
	if c.op == OpTrue {
		return 0
	}
	if c.op == OpFalse {
		return 1
	}
	r := p.fork(in, DBranch, []Lit{{c, false}, {c, true}}, fr)
	p.learn(c, r == 0)
	return r
}

// choose forks over n unconditional alternatives.
func (p *Path) choose(in *Interp, kind DecKind, n int, fr *Frame) int {
	if n == 1 {
		return 0
	}
	alts := make([]Lit, n)
	for i := range alts {
		alts[i] = Lit{in.ts.tt, false}
	}
	return p.fork(in, kind, alts, fr)
}

// concretize case-splits a symbolic integer over its feasible values.
func (p *Path) concretize(in *Interp, t *Term, fr *Frame, what string) int64 {
	if v, ok := p.known[t]; ok {
		return v
	}
	if st := p.simp(in, t); st.IsConst() {
		return sext(st.k, int(st.w))
	} else if st != t {
		v := p.concretize(in, st, fr, what)
		p.setKnown(t, v)
		return v
	}
	pos := len(p.trace)
	w := int(t.w)
	if pos < len(p.prefix) {
		d := p.prefix[pos]
		p.setKnown(t, d.Val)
		if d.Kind != DConc {
			panic(fmt.Sprintf("gosym: non-deterministic re-execution (concretize) at %s", siteOf(fr)))
		}
		p.trace = append(p.trace, d)
		p.pc = append(p.pc, Lit{in.ts.Eq(t, in.ts.Const(uint64(d.Val), w)), false})
		p.modelValid = false
		return d.Val
	}
	// enumerate feasible values (bounded)
	var vals []int64
	var excl []Lit
	for len(vals) < in.cfg.MaxConcretize {
		var v uint64
		if p.modelValid && len(excl) == 0 {
			v = in.ts.Eval(t)
		} else {
			r, m := in.sol.Check(p.lits(excl...), true)
			if r == Unsat {
				break
			}
			if r == Unknown {
				p.unknowns++
				break
			}
			in.ts.SetModel(m)
			p.modelValid = false
			v = in.ts.Eval(t)
		}
		vals = append(vals, sext(v, w))
		excl = append(excl, Lit{in.ts.Eq(t, in.ts.Const(v, w)), true})
	}
	if len(vals) == 0 {
		panic(pathEnd{"infeasible", "concretize: no value"})
	}
	if len(vals) >= in.cfg.MaxConcretize {
		panic(pathEnd{"unwind-exceeded", fmt.Sprintf("concretize %s: more than %d values at %s", what, in.cfg.MaxConcretize, siteOf(fr))})
	}
	sort.Slice(vals, func(i, j int) bool { return vals[i] < vals[j] })
	base := append([]Decision(nil), p.trace...)
	for _, v := range vals[1:] {
		pre := append(append([]Decision(nil), base...), Decision{Kind: DConc, Val: v})
		in.ex.push(pre)
	}
	p.trace = append(p.trace, Decision{Kind: DConc, Val: vals[0]})
	p.pc = append(p.pc, Lit{in.ts.Eq(t, in.ts.Const(uint64(vals[0]), w)), false})
	p.modelValid = false
	p.setKnown(t, vals[0])
	return vals[0]
}

// assume adds c to the path condition, ending the path when infeasible.
func (p *Path) assume(in *Interp, c *Term) {
	c = p.simp(in, c)
	defer func() {
		if !c.IsConst() {
			p.learn(c, true)
		}
	}()
	if c.op == OpTrue {
		return
	}
	if c.op == OpFalse {
		panic(pathEnd{"assume-false", ""})
	}
	if len(p.trace) < len(p.prefix) {
		// replaying a prefix that was feasible: no query needed
		p.pc = append(p.pc, Lit{c, false})
		p.modelValid = false
		return
	}
	ok, _ := p.feasible(in, Lit{c, false})
	if !ok {
		panic(pathEnd{"assume-false", ""})
	}
	p.pc = append(p.pc, Lit{c, false})
}

// model returns a satisfying assignment of the current path condition.
func (p *Path) model(in *Interp) map[string]uint64 {
	if !p.modelValid {
		r, m := in.sol.Check(p.lits(), true)
		if r != Sat {
			return nil
		}
		in.ts.SetModel(m)
		p.modelValid = true
	}
	out := map[string]uint64{}
	for i, t := range p.inputs {
		out[p.inputNames[i]] = in.ts.Eval(t)
	}
	return out
}

// ---- work queue ----

func (ex *Explorer) push(pre []Decision) {
	ex.mu.Lock()
	ex.work = append(ex.work, pre)
	ex.mu.Unlock()
	ex.cond.Signal()
}

func (ex *Explorer) pop() ([]Decision, bool) {
	t0 := time.Now()
	ex.mu.Lock()
	defer func() { ex.idle += time.Since(t0); ex.mu.Unlock() }()
	for {
		if ex.stop {
			return nil, false
		}
		if n := len(ex.work); n > 0 {
			pre := ex.work[n-1]
			ex.work = ex.work[:n-1]
			ex.busy++
			return pre, true
		}
		if ex.busy == 0 {
			ex.cond.Broadcast()
			return nil, false
		}
		ex.cond.Wait()
	}
}

func (ex *Explorer) done() {
	ex.mu.Lock()
	ex.busy--
	if ex.busy == 0 && len(ex.work) == 0 {
		ex.cond.Broadcast()
	}
	ex.mu.Unlock()
}

func (ex *Explorer) record(in *Interp, p *Path, end pathEnd, vios []*Violation) {
	ex.mu.Lock()
	defer ex.mu.Unlock()
	ex.paths++
	ex.ends[end.kind]++
	if end.kind != "ok" && end.kind != "assume-false" && len(ex.endSamples[end.kind]) < 5 {
		ex.endSamples[end.kind] = append(ex.endSamples[end.kind], end.msg)
	}
	if traceDecs && len(p.decSites) > 60 {
		h := map[string]int{}
		for _, s := range p.decSites {
			h[s]++
		}
		fmt.Fprintf(os.Stderr, "gosym: deep path (%d fresh decisions): %v\n", len(p.decSites), h)
	}
	ex.decisions += len(p.trace)
	if len(p.trace) > ex.maxDepthDec {
		ex.maxDepthDec = len(p.trace)
	}
	ex.nUnknown += p.unknowns
	for l := range p.reached {
		ex.reached[l]++
	}
	for f := range in.localFuncs {
		ex.funcs[f] = true
	}
	for _, v := range vios {
		ex.vioSeen[v.Sig]++
		if ex.vioSeen[v.Sig] == 1 {
			ex.violations = append(ex.violations, v)
		}
		if !ex.cfg.knownSigs[v.Sig] {
			ex.unknownVios++
		}
	}
	if end.kind == "unwind-exceeded" {
		ex.unknownVios++
	}
	// a violation that is not a listed finding decides the check: no need to finish the exploration
	if ex.unknownVios >= 25 && !ex.stop {
		ex.stop = true
		ex.stoppedOnViolation = true
		ex.cond.Broadcast()
	}
	if ex.cfg.MaxPaths > 0 && ex.paths >= ex.cfg.MaxPaths && !ex.stop {
		ex.stop = true
		ex.truncated = true
		ex.cond.Broadcast()
	}
	if ex.cfg.Deadline > 0 && time.Since(ex.started) > ex.cfg.Deadline && !ex.stop {
		ex.stop = true
		ex.truncated = true
		ex.cond.Broadcast()
	}
	if os.Getenv("GOSYM_PROGRESS") != "" && ex.paths%200 == 0 {
		fmt.Fprintf(os.Stderr, "gosym: %d paths, queue %d, ends %v\n", ex.paths, len(ex.work), ex.ends)
	}
}

func (ex *Explorer) addSample(s map[string]interface{}) {
	ex.mu.Lock()
	if len(ex.samples) < ex.cfg.MaxSamples {
		ex.samples = append(ex.samples, s)
	}
	ex.mu.Unlock()
}
