package main

import (
	"bufio"
	"encoding/json"
	"fmt"
	"os"
	"path/filepath"
	"sort"
	"strings"
	"time"
)

type knownFinding struct {
	Property string
	Sig      string
	Text     string
}

var nSelected = 1 // harnesses of this run (the thorough wall-clock budget is shared between them)

func loadKnown(verif string) ([]knownFinding, error) {
	f, err := os.Open(filepath.Join(verif, "known_findings.txt"))
	if err != nil {
		if os.IsNotExist(err) {
			return nil, nil
		}
		return nil, err
	}
	defer f.Close()
	var out []knownFinding
	sc := bufio.NewScanner(f)
	sc.Buffer(make([]byte, 1<<20), 1<<20)
	for sc.Scan() {
		line := strings.TrimSpace(sc.Text())
		if !strings.HasPrefix(line, "finding:") {
			continue
		}
		rest := strings.TrimSpace(strings.TrimPrefix(line, "finding:"))
		// property=Cxx sig="..." text
		var kf knownFinding
		if !strings.HasPrefix(rest, "property=") {
			continue
		}
		sp := strings.IndexByte(rest, ' ')
		kf.Property = rest[len("property="):sp]
		rest = strings.TrimSpace(rest[sp:])
		if !strings.HasPrefix(rest, "sig=\"") {
			continue
		}
		rest = rest[len("sig=\""):]
		end := strings.Index(rest, "\" ")
		if end < 0 {
			end = strings.LastIndex(rest, "\"")
		}
		kf.Sig = rest[:end]
		kf.Text = strings.TrimSpace(rest[end+1:])
		out = append(out, kf)
	}
	return out, nil
}

func runSpec(l *Loaded, spec *CheckSpec, tier, only string, workers int, extra map[string]int, out, verif, repo string, loadS float64) int {
	t0 := time.Now()
	known, err := loadKnown(verif)
	if err != nil {
		fmt.Fprintln(os.Stderr, "known findings:", err)
		return 2
	}
	for _, k := range known {
		if k.Property == spec.Property {
			knownSigsGlobal[k.Sig] = true
		}
	}
	seed := 0
	fmt.Sscanf(os.Getenv("VERIF_SEED"), "%d", &seed)
	exit := 0
	machineryErr := false
	var allSamples []interface{}
	var harnessReports []map[string]interface{}
	funcs := map[string]bool{}
	totalPaths, totalDecs, totalQueries := 0, 0, 0
	totalSolver := 0.0
	inconclusive := 0
	knownSeen := []string{}
	reachAll := map[string]int{}
	twinOK := true
	assumptions := []string{
		"trusted base: the gosym engine (SSA interpreter, term simplifier, scheduler), z3, the intrinsics/summaries for runtime, sync, time, fmt and unsafe casts, and the Go toolchain's SSA construction",
		"loggers and metrics (zap, file.d/logger, file.d/metric, prometheus) are no-op stubs; logger.Panic*/Fatal* end the path as panic/exit",
	}
	outside := []string{}
	stubsAll := map[string]string{}
	nViol := 0
	replayOK := 0
	os.MkdirAll(filepath.Join(verif, "replays"), 0o755)
	nSelected = 0
	for hi := range spec.Harnesses {
		if only == "" || spec.Harnesses[hi].Name == only {
			nSelected++
		}
	}
	for hi := range spec.Harnesses {
		h := &spec.Harnesses[hi]
		if only != "" && h.Name != only {
			continue
		}
		res, err := runHarness(l, spec, h, tier, extra, workers)
		if err != nil {
			fmt.Fprintf(os.Stderr, "gosym: harness %s: %v\n", h.Name, err)
			machineryErr = true
			continue
		}
		rep := map[string]interface{}{"name": h.Name, "entry": h.Pkg + "." + h.Entry, "paths": res.Paths, "path_ends": res.Ends,
			"decisions": res.Decisions, "queries": res.Queries, "solver_time_s": round3(res.SolverTimeS), "wall_s": round3(res.WallS),
			"reach": res.Reached, "solver_unknown": res.Unknown, "truncated": res.Truncated, "max_decision_depth": res.MaxDecDepth,
			"ssa_instructions_executed": res.Steps, "describe": h.Describe}
		if res.Truncated {
			fmt.Printf("NOTE: property=%s harness=%s exploration stopped early after %d paths / %.0f s (wall-clock budget, path cap or decided by a violation): the stated bound was NOT completed\n",
				spec.Property, h.Name, res.Paths, res.WallS)
		}
		ts := h.Quick
		if tier == "thorough" && (h.Thorough.Params != nil || h.Thorough.MaxSteps != 0) {
			ts = h.Thorough
		}
		rep["bounds"] = map[string]interface{}{"params": ts.Params, "preemptions": ts.Preemptions, "max_steps_per_path": ts.MaxSteps, "max_paths": ts.MaxPaths}
		if len(res.EndSamples) > 0 {
			rep["path_end_samples"] = res.EndSamples
		}
		for _, f := range res.Funcs {
			funcs[f] = true
		}
		for k, v := range h.Stubs {
			stubsAll[k] = v
		}
		assumptions = append(assumptions, h.Assumptions...)
		outside = append(outside, h.Outside...)
		totalPaths += res.Paths
		totalDecs += res.Decisions
		totalQueries += res.Queries
		totalSolver += res.SolverTimeS
		for k, v := range res.Reached {
			reachAll[h.Name+":"+k] += v
		}
		for _, s := range res.Samples {
			allSamples = append(allSamples, s)
		}
		bad := res.Ends["unsupported"] + res.Ends["engine-error"]
		inconclusive += bad + res.Unknown + res.Ends["solver-unknown"]
		if bad > 0 {
			fmt.Fprintf(os.Stderr, "gosym: harness %s: %d paths ended unsupported/engine-error: %v\n", h.Name, bad, res.EndSamples)
			machineryErr = true
		}
		if res.SolverErrs > 0 {
			fmt.Fprintf(os.Stderr, "gosym: harness %s: %d solver errors\n", h.Name, res.SolverErrs)
			machineryErr = true
		}
		// unwinding failures: non-termination within budget is reported as a violation candidate
		if n := res.Ends["unwind-exceeded"]; n > 0 {
			fmt.Fprintf(os.Stderr, "gosym: harness %s: %d paths exceeded the unwinding budget: %v\n", h.Name, n, res.EndSamples["unwind-exceeded"])
			v := &Violation{Kind: "unwind", Label: "unwind-exceeded", Harness: h.Name, Msg: strings.Join(res.EndSamples["unwind-exceeded"], "; "),
				Sig: h.Name + "/unwind/unwind-exceeded"}
			res.Violations = append(res.Violations, v)
		}
		// vacuity
		if !res.Truncated && bad == 0 {
			for _, lab := range h.Reach {
				if res.Reached[lab] == 0 {
					v := &Violation{Kind: "vacuous", Label: lab, Harness: h.Name, Msg: "required reach label never hit: " + lab,
						Sig: h.Name + "/vacuous/" + lab}
					res.Violations = append(res.Violations, v)
				}
			}
		}
		// classify violations
		var vrep []map[string]interface{}
		for _, v := range res.Violations {
			isKnown := false
			for _, k := range known {
				if k.Property == spec.Property && k.Sig == v.Sig {
					isKnown = true
					msg := fmt.Sprintf("KNOWN-FINDING: property=%s %s [%s]", spec.Property, k.Text, v.Sig)
					dup := false
					for _, s := range knownSeen {
						if s == msg {
							dup = true
						}
					}
					if !dup {
						knownSeen = append(knownSeen, msg)
						fmt.Println(msg)
					}
				}
			}
			entry := map[string]interface{}{"sig": v.Sig, "kind": v.Kind, "label": v.Label, "site": v.Site, "msg": v.Msg, "known": isKnown, "inputs": v.Inputs, "observed": v.Obs}
			if !isKnown {
				nViol++
				// replay
				replayed := true
				why := ""
				if v.Kind != "vacuous" && v.Kind != "unwind" && os.Getenv("GOSYM_NO_REPLAY") == "" {
					base := &RunConfig{Harness: h.Name, Params: map[string]int{}, MaxSteps: 4_000_000, MaxDepth: 400, MaxDecisions: 20000,
						MaxConcretize: 300, MaxSamples: 0, MaxGoroutines: 16, MaxIdleTicks: 40, Preemptions: ts.Preemptions,
						PoolNondet: h.PoolNondet, TimerPreempt: h.TimerPreempt, RandFixed: h.RandFixed, apiPkg: apiPkgPath, solverTimeout: 10000}
					for k, x := range ts.Params {
						base.Params[k] = x
					}
					for k, x := range extra {
						base.Params[k] = x
					}
					if ts.MaxIdleTicks > 0 {
						base.MaxIdleTicks = ts.MaxIdleTicks
					}
					base.noopPrefixes = append(append([]string{}, defaultNoop...), h.Noop...)
					fillStubs(l, h, base)
					replayed, why = replayConcrete(l, h, base, v)
				}
				entry["replayed_concretely"] = replayed
				fname := fmt.Sprintf("%s-%s-%d.json", spec.Property, h.Name, nViol)
				rpath := filepath.Join(verif, "replays", fname)
				rj, _ := json.MarshalIndent(map[string]interface{}{"property": spec.Property, "harness": h.Name, "tier": tier, "violation": v,
					"replayed_concretely": replayed, "replay_note": why, "params": ts.Params}, "", " ")
				os.WriteFile(rpath, rj, 0o644)
				if replayed {
					replayOK++
					fmt.Printf("VIOLATION property=%s replay=%s\n", spec.Property, rpath)
					fmt.Printf("  harness=%s kind=%s label=%s site=%s\n  %s\n", h.Name, v.Kind, v.Label, v.Site, firstLine(v.Msg))
					if len(v.Inputs) > 0 {
						fmt.Printf("  inputs: %s\n", fmtInputs(v.Inputs))
					}
					exit = 1
				} else {
					fmt.Fprintf(os.Stderr, "gosym: counterexample for %s did not reproduce concretely (%s): engine/stub error\n", v.Sig, why)
					machineryErr = true
				}
			}
			vrep = append(vrep, entry)
		}
		rep["violations"] = vrep
		// twin: a deliberately broken oracle must be caught
		if h.Twin && only == "" || h.Twin && only == h.Name {
			ex2 := map[string]int{"twin": 1}
			for k, v := range extra {
				ex2[k] = v
			}
			tres, err := runHarness(l, spec, h, tier, ex2, workers)
			caught := false
			if err == nil {
				for _, v := range tres.Violations {
					if h.TwinLabel == "" || v.Label == h.TwinLabel {
						caught = true
					}
				}
				totalQueries += tres.Queries
				totalSolver += tres.SolverTimeS
			}
			rep["twin_violated"] = caught
			if !caught {
				twinOK = false
				fmt.Fprintf(os.Stderr, "gosym: harness %s: twin (deliberately broken oracle) was NOT caught: check is vacuous\n", h.Name)
				machineryErr = true
			}
		}
		harnessReports = append(harnessReports, rep)
	}
	if len(allSamples) == 0 {
		allSamples = append(allSamples, map[string]interface{}{"note": "no completed path produced a sample"})
	}
	var fl []string
	for f := range funcs {
		fl = append(fl, f)
	}
	sort.Strings(fl)
	if machineryErr && exit == 0 {
		exit = 2
	}
	ev := map[string]interface{}{
		"property_id": spec.Property, "tier": tier, "seed": seed, "level": "model_checking",
		"wall_s":     round3(time.Since(t0).Seconds() + loadS),
		"violations": nViol,
		"coverage": map[string]interface{}{
			"states": totalPaths, "transitions": totalDecs + totalPaths, "transitions_rule": "branch/scheduling/environment decisions taken plus one terminal step per explored path", "traces_validated_against_impl": 0,
			"samples": allSamples, "functions_encoded": fl, "n_functions_encoded": len(fl), "harnesses": harnessReports,
			"queries": totalQueries, "solver_time_s": round3(totalSolver), "solver": "z3 (one process per worker, check-sat-assuming over QF_BV definitions)",
			"reach_labels": reachAll, "twin_violated": twinOK, "inconclusive_paths": inconclusive,
			"known_findings_seen": knownSeen, "outside_bounds": outside, "stubs": stubsAll, "load_s": round3(loadS),
			"exit": exit,
		},
		"assumptions": assumptions,
	}
	if out != "" {
		os.MkdirAll(filepath.Dir(out), 0o755)
		data, _ := json.MarshalIndent(ev, "", " ")
		if err := os.WriteFile(out, data, 0o644); err != nil {
			fmt.Fprintln(os.Stderr, err)
			return 2
		}
	}
	fmt.Printf("gosym: property=%s tier=%s paths=%d decisions=%d queries=%d solver=%.1fs wall=%.1fs violations=%d known=%d exit=%d\n",
		spec.Property, tier, totalPaths, totalDecs, totalQueries, totalSolver, time.Since(t0).Seconds()+loadS, nViol, len(knownSeen), exit)
	return exit
}

func firstLine(s string) string {
	if i := strings.IndexByte(s, '\n'); i >= 0 {
		return s[:i]
	}
	return s
}

func fmtInputs(m map[string]uint64) string {
	ks := sortedKeys(m)
	var parts []string
	for _, k := range ks {
		parts = append(parts, fmt.Sprintf("%s=%d", k, m[k]))
		if len(parts) > 60 {
			parts = append(parts, "...")
			break
		}
	}
	return strings.Join(parts, " ")
}

func round3(f float64) float64 { return float64(int64(f*1000)) / 1000 }
