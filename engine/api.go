package main

// The harness-facing nondeterminism API (package zzverif), intercepted by name.

import (
	"fmt"
	"sort"
	"strings"

	"golang.org/x/tools/go/ssa"
)

func (in *Interp) inputName(name string) string {
	k := in.nameCount[name]
	in.nameCount[name] = k + 1
	return fmt.Sprintf("%s#%d", name, k)
}

func (in *Interp) newInput(name string, w int) *Term {
	full := in.inputName(name)
	p := in.path
	if p.concrete != nil {
		v, ok := p.concrete[full]
		if !ok {
			debugf("concrete replay: input %s missing, using 0", full)
		}
		if w == 0 {
			return in.ts.Bool(v != 0)
		}
		return in.ts.Const(v, w)
	}
	t := in.ts.Var(full, w)
	p.inputs = append(p.inputs, t)
	p.inputNames = append(p.inputNames, full)
	return t
}

func (in *Interp) strArg(v Value) string {
	s, ok := v.(Str).concrete()
	if !ok {
		panic("verif API: symbolic name/label")
	}
	return s
}

func (in *Interp) callAPI(fr *Frame, fn *ssa.Function, args []Value) Value {
	ts := in.ts
	p := in.path
	switch fn.Name() {
	case "Symbolic":
		return ts.tt
	case "Int", "Int64":
		name := in.strArg(args[0])
		lo, hi := args[1].(*Term), args[2].(*Term)
		if lo.IsConst() && hi.IsConst() && lo.k == hi.k {
			in.inputName(name)
			return lo
		}
		t := in.newInput(name, 64)
		p.assume(in, ts.And(ts.Cmp(OpSle, lo, t), ts.Cmp(OpSle, t, hi)))
		return t
	case "Uint64":
		return in.newInput(in.strArg(args[0]), 64)
	case "Uint32":
		return in.newInput(in.strArg(args[0]), 32)
	case "Uint16":
		return in.newInput(in.strArg(args[0]), 16)
	case "Byte":
		return in.newInput(in.strArg(args[0]), 8)
	case "Bool":
		return in.newInput(in.strArg(args[0]), 0)
	case "Bytes":
		name := in.strArg(args[0])
		n := int(in.concreteInt(fr, args[1].(*Term), "Bytes length"))
		v := make([]Value, n)
		for i := range v {
			v[i] = in.newInput(fmt.Sprintf("%s[%d]", name, i), 8)
		}
		return Slice{v}
	case "Choose":
		name := in.strArg(args[0])
		n := int(in.concreteInt(fr, args[1].(*Term), "Choose n"))
		full := in.inputName(name)
		var c int
		if p.concrete != nil {
			c = int(p.concrete[full])
		} else {
			c = p.choose(in, DChoose, n, fr)
			p.chosen[full] = uint64(c)
		}
		return ts.Const(uint64(c), 64)
	case "Param":
		name := in.strArg(args[0])
		if v, ok := in.cfg.Params[name]; ok {
			return ts.Const(uint64(int64(v)), 64)
		}
		return args[1]
	case "Assume":
		p.assume(in, args[0].(*Term))
		return nil
	case "Assert":
		in.doAssert(fr, args[0].(*Term), in.strArg(args[1]))
		return nil
	case "Fail":
		in.doAssert(fr, ts.ff, in.strArg(args[0]))
		return nil
	case "Reach":
		p.reached[in.strArg(args[0])] = true
		return nil
	case "Observe":
		label := in.strArg(args[0])
		var parts []string
		for _, a := range args[1].(Slice).v {
			parts = append(parts, in.renderObs(a))
		}
		p.observed = append(p.observed, label+"="+strings.Join(parts, ","))
		p.obsVals = append(p.obsVals, obsRec{label, args[1].(Slice).v})
		return nil
	case "Quiesce":
		in.sched.quiesce(fr, int(in.concreteInt(fr, args[0].(*Term), "rounds")))
		return nil
	case "Yield":
		in.sched.yield(fr, "vf.Yield")
		return nil
	case "Atomic":
		in.sched.noYield++
		in.call(fr, args[0], nil, nil)
		in.sched.noYield--
		return nil
	case "SharedWrites":
		t := &writeTrack{cells: map[*Value]bool{}, maps: map[*Map]bool{}}
		collectCells(args[0], t, 0)
		prev := in.track
		in.track = t
		in.call(fr, args[1], nil, nil)
		in.track = prev
		return cI(in, int64(t.hits))
	case "Now":
		return cI(in, in.sched.clock)
	case "Advance":
		d := in.concreteInt(fr, args[0].(*Term), "advance")
		in.sched.clock += d
		return nil
	case "Note":
		return nil
	case "And":
		return ts.And(args[0].(*Term), args[1].(*Term))
	case "Or":
		return ts.Or(args[0].(*Term), args[1].(*Term))
	case "Implies":
		return ts.Or(ts.Not(args[0].(*Term)), args[1].(*Term))
	}
	// anything else in the API package is ordinary Go: interpret it
	if fn.Blocks == nil {
		in.unsupported(fr, "verif API function "+fn.Name())
	}
	in.depth++
	nfr := in.newFrame(fr.g, fr, fn, args, nil)
	in.runFrameLoop(nfr)
	in.depth--
	return nfr.result
}

type obsRec struct {
	label string
	vals  []Value
}

// renderObs renders an observed value; symbolic parts are evaluated later under the model.
func (in *Interp) renderObs(v Value) string {
	switch v := v.(type) {
	case Iface:
		if v.T == nil {
			return "nil"
		}
		return in.renderObs(v.V)
	case *Term:
		if v.IsConst() {
			if v.w == 0 {
				return fmt.Sprint(v.op == OpTrue)
			}
			return fmt.Sprint(v.k)
		}
		return "?"
	case Str:
		if s, ok := v.concrete(); ok {
			return fmt.Sprintf("%q", s)
		}
		return "?str"
	case Slice:
		var parts []string
		for _, e := range v.v {
			parts = append(parts, in.renderObs(e))
		}
		return "[" + strings.Join(parts, " ") + "]"
	}
	return fmt.Sprintf("<%T>", v)
}

// renderObsModel renders an observed value under the current model.
func (in *Interp) renderObsModel(v Value) string {
	switch v := v.(type) {
	case Iface:
		if v.T == nil {
			return "nil"
		}
		return in.renderObsModel(v.V)
	case *Term:
		x := in.ts.Eval(v)
		if v.w == 0 {
			return fmt.Sprint(x != 0)
		}
		return fmt.Sprint(x)
	case Str:
		b := make([]byte, len(v.b))
		for i, e := range v.b {
			b[i] = byte(in.ts.Eval(e.(*Term)))
		}
		return fmt.Sprintf("%q", string(b))
	case Slice:
		if len(v.v) == 0 {
			return "\"\""
		}
		allBytes := len(v.v) > 0
		for _, e := range v.v {
			if t, ok := e.(*Term); !ok || t.w != 8 {
				allBytes = false
			}
		}
		if allBytes {
			b := make([]byte, len(v.v))
			for i, e := range v.v {
				b[i] = byte(in.ts.Eval(e.(*Term)))
			}
			return fmt.Sprintf("%q", string(b))
		}
		var parts []string
		for _, e := range v.v {
			parts = append(parts, in.renderObsModel(e))
		}
		return "[" + strings.Join(parts, " ") + "]"
	}
	return fmt.Sprintf("<%T>", v)
}

func (in *Interp) stack(fr *Frame) []string {
	var out []string
	for f := fr; f != nil && len(out) < 12; f = f.caller {
		if f.fn != nil {
			out = append(out, f.site())
		}
	}
	return out
}

func (in *Interp) doAssert(fr *Frame, c *Term, label string) {
	p := in.path
	c = p.simp(in, c)
	if len(p.trace) < len(p.prefix) {
		// replaying a prefix: the path that generated it already checked this assertion
		if !c.IsConst() {
			p.pc = append(p.pc, Lit{c, false})
			p.modelValid = false
		} else if c.op == OpFalse {
			panic(pathEnd{"assume-false", "assert failed earlier"})
		}
		return
	}
	p.asserts++
	if c.op == OpTrue {
		return
	}
	violated := false
	if c.op == OpFalse {
		violated = true
	} else if p.concrete != nil {
		panic("symbolic assert in concrete mode")
	} else {
		r, m := in.sol.Check(p.lits(Lit{c, true}), true)
		switch r {
		case Sat:
			in.ts.SetModel(m)
			p.modelValid = true
			violated = true
		case Unknown:
			p.unknowns++
			p.inconclusive++
		}
	}
	if violated {
		v := in.mkViolation("assert", label, fr, "assertion "+label+" violated")
		if v != nil {
			p.vios = append(p.vios, v)
		}
		if c.op == OpFalse {
			panic(pathEnd{"assert-violated", label})
		}
		// continue under the assumption that it held (other inputs)
		p.modelValid = false
		p.assume(in, c)
		return
	}
	if !c.IsConst() {
		p.pc = append(p.pc, Lit{c, false})
	}
}

func (in *Interp) mkViolation(kind, label string, fr *Frame, msg string) *Violation {
	p := in.path
	var inputs map[string]uint64
	if p.concrete != nil {
		inputs = p.concrete
	} else {
		inputs = p.model(in)
		if inputs == nil {
			p.inconclusive++
			return nil
		}
		for k, v := range p.chosen {
			inputs[k] = v
		}
	}
	site := ""
	if fr != nil {
		site = fr.site()
	}
	v := &Violation{Kind: kind, Label: label, Site: site, Msg: msg, Harness: in.cfg.Harness,
		Inputs: inputs, Decs: append([]Decision(nil), p.trace...), Stack: in.stack(fr)}
	for _, o := range p.obsVals {
		var parts []string
		for _, x := range o.vals {
			parts = append(parts, in.renderObsModel(x))
		}
		v.Obs = append(v.Obs, o.label+"="+strings.Join(parts, ","))
	}
	v.Sig = in.cfg.Harness + "/" + kind + "/" + label
	return v
}

func sortedKeys(m map[string]uint64) []string {
	var ks []string
	for k := range m {
		ks = append(ks, k)
	}
	sort.Strings(ks)
	return ks
}
