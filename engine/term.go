package main

// Hash-consed SMT terms (QF_BV + Bool) with constant folding.

import (
	"fmt"
	"math/bits"
	"strings"
)

type Op uint8

const (
	OpConst Op = iota // BV constant (k, w)
	OpTrue
	OpFalse
	OpVar  // BV var (name, w)
	OpBVar // Bool var
	OpNot
	OpAnd // bool and
	OpOr
	OpIte // a ? b : c  (bool or bv)
	OpEq
	OpUlt
	OpUle
	OpSlt
	OpSle
	OpAdd
	OpSub
	OpMul
	OpUDiv
	OpURem
	OpSDiv
	OpSRem
	OpBAnd
	OpBOr
	OpBXor
	OpShl
	OpLShr
	OpAShr
	OpConcat
	OpExtract // k = hi<<8 | lo
	OpZExt    // w = new width
	OpSExt
)

var opSMT = map[Op]string{
	OpNot: "not", OpAnd: "and", OpOr: "or", OpIte: "ite", OpEq: "=",
	OpUlt: "bvult", OpUle: "bvule", OpSlt: "bvslt", OpSle: "bvsle",
	OpAdd: "bvadd", OpSub: "bvsub", OpMul: "bvmul", OpUDiv: "bvudiv", OpURem: "bvurem",
	OpSDiv: "bvsdiv", OpSRem: "bvsrem", OpBAnd: "bvand", OpBOr: "bvor", OpBXor: "bvxor",
	OpShl: "bvshl", OpLShr: "bvlshr", OpAShr: "bvashr", OpConcat: "concat",
}

type Term struct {
	id      int32
	op      Op
	w       uint8 // bit width; 0 for Bool
	a, b, c *Term
	k       uint64
	name    string
	gen     int32 // solver generation in which it was defined
	evalGen int32
	evalVal uint64
}

func (t *Term) IsBool() bool  { return t.w == 0 }
func (t *Term) IsConst() bool { return t.op == OpConst || t.op == OpTrue || t.op == OpFalse }
func (t *Term) Width() int    { return int(t.w) }

type termKey struct {
	op      Op
	w       uint8
	a, b, c int32
	k       uint64
	name    string
}

// TermStore is per worker.
type TermStore struct {
	tab      map[termKey]*Term
	all      []*Term
	vars     []*Term
	tt, ff   *Term
	small    [65][]*Term // small constant cache per width (0..255)
	evalGen  int32
	evalVars map[string]uint64
}

func NewTermStore() *TermStore {
	ts := &TermStore{tab: map[termKey]*Term{}}
	ts.tt = ts.mk(termKey{op: OpTrue}, nil, nil, nil)
	ts.ff = ts.mk(termKey{op: OpFalse}, nil, nil, nil)
	return ts
}

func tid(t *Term) int32 {
	if t == nil {
		return -1
	}
	return t.id
}

func (ts *TermStore) mk(k termKey, a, b, c *Term) *Term {
	k.a, k.b, k.c = tid(a), tid(b), tid(c)
	if t, ok := ts.tab[k]; ok {
		return t
	}
	t := &Term{id: int32(len(ts.all)), op: k.op, w: k.w, a: a, b: b, c: c, k: k.k, name: k.name}
	ts.tab[k] = t
	ts.all = append(ts.all, t)
	if k.op == OpVar || k.op == OpBVar {
		ts.vars = append(ts.vars, t)
	}
	return t
}

func mask(w int) uint64 {
	if w >= 64 {
		return ^uint64(0)
	}
	return (uint64(1) << uint(w)) - 1
}

func sext(v uint64, w int) int64 {
	if w >= 64 {
		return int64(v)
	}
	sh := uint(64 - w)
	return int64(v<<sh) >> sh
}

func (ts *TermStore) Const(v uint64, w int) *Term {
	v &= mask(w)
	if v < 256 {
		if ts.small[w] == nil {
			ts.small[w] = make([]*Term, 256)
		}
		if t := ts.small[w][v]; t != nil {
			return t
		}
		t := ts.mk(termKey{op: OpConst, w: uint8(w), k: v}, nil, nil, nil)
		ts.small[w][v] = t
		return t
	}
	return ts.mk(termKey{op: OpConst, w: uint8(w), k: v}, nil, nil, nil)
}

func (ts *TermStore) Bool(b bool) *Term {
	if b {
		return ts.tt
	}
	return ts.ff
}

func (ts *TermStore) Var(name string, w int) *Term {
	if w == 0 {
		return ts.mk(termKey{op: OpBVar, name: name}, nil, nil, nil)
	}
	return ts.mk(termKey{op: OpVar, w: uint8(w), name: name}, nil, nil, nil)
}

func (ts *TermStore) Not(a *Term) *Term {
	switch a.op {
	case OpTrue:
		return ts.ff
	case OpFalse:
		return ts.tt
	case OpNot:
		return a.a
	}
	return ts.mk(termKey{op: OpNot}, a, nil, nil)
}

func (ts *TermStore) And(a, b *Term) *Term {
	if a.op == OpFalse || b.op == OpFalse {
		return ts.ff
	}
	if a.op == OpTrue {
		return b
	}
	if b.op == OpTrue {
		return a
	}
	if a == b {
		return a
	}
	if a.id > b.id {
		a, b = b, a
	}
	return ts.mk(termKey{op: OpAnd}, a, b, nil)
}

func (ts *TermStore) Or(a, b *Term) *Term {
	if a.op == OpTrue || b.op == OpTrue {
		return ts.tt
	}
	if a.op == OpFalse {
		return b
	}
	if b.op == OpFalse {
		return a
	}
	if a == b {
		return a
	}
	if a.id > b.id {
		a, b = b, a
	}
	return ts.mk(termKey{op: OpOr}, a, b, nil)
}

func (ts *TermStore) Ite(c, a, b *Term) *Term {
	if c.op == OpTrue {
		return a
	}
	if c.op == OpFalse {
		return b
	}
	if a == b {
		return a
	}
	if a.w == 0 {
		if a.op == OpTrue && b.op == OpFalse {
			return c
		}
		if a.op == OpFalse && b.op == OpTrue {
			return ts.Not(c)
		}
		if a.op == OpTrue {
			return ts.Or(c, b)
		}
		if b.op == OpFalse {
			return ts.And(c, a)
		}
		if a.op == OpFalse {
			return ts.And(ts.Not(c), b)
		}
		if b.op == OpTrue {
			return ts.Or(ts.Not(c), a)
		}
	}
	if c.op == OpNot {
		return ts.Ite(c.a, b, a)
	}
	return ts.mk(termKey{op: OpIte, w: a.w}, c, a, b)
}

func (ts *TermStore) Eq(a, b *Term) *Term {
	if a == b {
		return ts.tt
	}
	if a.w != b.w {
		panic(fmt.Sprintf("Eq width mismatch %d %d", a.w, b.w))
	}
	if a.IsConst() && b.IsConst() {
		if a.w == 0 {
			return ts.Bool(a.op == b.op)
		}
		return ts.Bool(a.k == b.k)
	}
	if a.w == 0 {
		if a.op == OpTrue {
			return b
		}
		if b.op == OpTrue {
			return a
		}
		if a.op == OpFalse {
			return ts.Not(b)
		}
		if b.op == OpFalse {
			return ts.Not(a)
		}
	}
	// eq(ite(c,k1,x), k) with constants: push the comparison into (linear) ite chains
	if b.IsConst() && a.op == OpIte && (a.b.IsConst() || a.c.IsConst()) && a.w != 0 {
		return ts.Ite(a.a, ts.Eq(a.b, b), ts.Eq(a.c, b))
	}
	if a.IsConst() && b.op == OpIte && (b.b.IsConst() || b.c.IsConst()) && b.w != 0 {
		return ts.Ite(b.a, ts.Eq(b.b, a), ts.Eq(b.c, a))
	}
	// eq(zext(x), const)
	if b.IsConst() && a.op == OpZExt {
		if b.k > mask(int(a.a.w)) {
			return ts.ff
		}
		return ts.Eq(a.a, ts.Const(b.k, int(a.a.w)))
	}
	if a.IsConst() && b.op == OpZExt {
		return ts.Eq(b, a)
	}
	if a.id > b.id {
		a, b = b, a
	}
	return ts.mk(termKey{op: OpEq}, a, b, nil)
}

func (ts *TermStore) Cmp(op Op, a, b *Term) *Term {
	if a.w != b.w {
		panic(fmt.Sprintf("Cmp width mismatch %d %d", a.w, b.w))
	}
	w := int(a.w)
	if a.IsConst() && b.IsConst() {
		switch op {
		case OpUlt:
			return ts.Bool(a.k < b.k)
		case OpUle:
			return ts.Bool(a.k <= b.k)
		case OpSlt:
			return ts.Bool(sext(a.k, w) < sext(b.k, w))
		case OpSle:
			return ts.Bool(sext(a.k, w) <= sext(b.k, w))
		}
	}
	if a == b {
		return ts.Bool(op == OpUle || op == OpSle)
	}
	// zext(x) <u const
	if (op == OpUlt || op == OpUle) && a.op == OpZExt && b.IsConst() {
		if b.k > mask(int(a.a.w)) {
			return ts.tt
		}
		return ts.Cmp(op, a.a, ts.Const(b.k, int(a.a.w)))
	}
	if (op == OpSlt || op == OpSle) && a.op == OpZExt && b.IsConst() && sext(b.k, w) >= 0 {
		uop := OpUlt
		if op == OpSle {
			uop = OpUle
		}
		return ts.Cmp(uop, a, b)
	}
	if op == OpUlt && b.IsConst() && b.k == 0 {
		return ts.ff
	}
	if op == OpUle && a.IsConst() && a.k == 0 {
		return ts.tt
	}
	if a.op == OpIte && b.IsConst() && (a.b.IsConst() || a.c.IsConst()) {
		return ts.Ite(a.a, ts.Cmp(op, a.b, b), ts.Cmp(op, a.c, b))
	}
	if b.op == OpIte && a.IsConst() && (b.b.IsConst() || b.c.IsConst()) {
		return ts.Ite(b.a, ts.Cmp(op, a, b.b), ts.Cmp(op, a, b.c))
	}
	return ts.mk(termKey{op: op}, a, b, nil)
}

func foldBin(op Op, x, y uint64, w int) (uint64, bool) {
	m := mask(w)
	switch op {
	case OpAdd:
		return (x + y) & m, true
	case OpSub:
		return (x - y) & m, true
	case OpMul:
		return (x * y) & m, true
	case OpUDiv:
		if y == 0 {
			return m, true
		}
		return x / y, true
	case OpURem:
		if y == 0 {
			return x, true
		}
		return x % y, true
	case OpSDiv:
		sx, sy := sext(x, w), sext(y, w)
		if sy == 0 {
			if sx < 0 {
				return 1, true
			}
			return m, true
		}
		if sy == -1 {
			return uint64(-sx) & m, true
		}
		return uint64(sx/sy) & m, true
	case OpSRem:
		sx, sy := sext(x, w), sext(y, w)
		if sy == 0 {
			return x, true
		}
		if sy == -1 {
			return 0, true
		}
		return uint64(sx%sy) & m, true
	case OpBAnd:
		return x & y, true
	case OpBOr:
		return x | y, true
	case OpBXor:
		return x ^ y, true
	case OpShl:
		if y >= uint64(w) {
			return 0, true
		}
		return (x << y) & m, true
	case OpLShr:
		if y >= uint64(w) {
			return 0, true
		}
		return x >> y, true
	case OpAShr:
		sx := sext(x, w)
		if y >= uint64(w) {
			y = uint64(w - 1)
		}
		return uint64(sx>>y) & m, true
	}
	return 0, false
}

func (ts *TermStore) Bin(op Op, a, b *Term) *Term {
	if a.w != b.w {
		panic(fmt.Sprintf("Bin %v width mismatch %d %d", op, a.w, b.w))
	}
	w := int(a.w)
	if a.IsConst() && b.IsConst() {
		v, _ := foldBin(op, a.k, b.k, w)
		return ts.Const(v, w)
	}
	switch op {
	case OpAdd:
		if a.IsConst() && a.k == 0 {
			return b
		}
		if b.IsConst() && b.k == 0 {
			return a
		}
		// (x + c1) + c2
		if b.IsConst() && a.op == OpAdd && a.b.IsConst() {
			return ts.Bin(OpAdd, a.a, ts.Const(a.b.k+b.k, w))
		}
		if a.IsConst() { // constants to the right
			a, b = b, a
		}
	case OpSub:
		if b.IsConst() && b.k == 0 {
			return a
		}
		if a == b {
			return ts.Const(0, w)
		}
		if b.IsConst() {
			return ts.Bin(OpAdd, a, ts.Const(-b.k, w))
		}
	case OpMul:
		if a.IsConst() {
			a, b = b, a
		}
		if b.IsConst() {
			if b.k == 0 {
				return b
			}
			if b.k == 1 {
				return a
			}
			if bits.OnesCount64(b.k) == 1 {
				return ts.Bin(OpShl, a, ts.Const(uint64(bits.TrailingZeros64(b.k)), w))
			}
		}
	case OpBAnd:
		if a == b {
			return a
		}
		if a.IsConst() {
			a, b = b, a
		}
		if b.IsConst() {
			if b.k == 0 {
				return b
			}
			if b.k == mask(w) {
				return a
			}
			if a.op == OpZExt && b.k&mask(int(a.a.w)) == mask(int(a.a.w)) {
				return a
			}
		}
	case OpBOr:
		if a == b {
			return a
		}
		if a.IsConst() {
			a, b = b, a
		}
		if b.IsConst() {
			if b.k == 0 {
				return a
			}
			if b.k == mask(w) {
				return b
			}
		}
	case OpBXor:
		if a == b {
			return ts.Const(0, w)
		}
		if a.IsConst() {
			a, b = b, a
		}
		if b.IsConst() && b.k == 0 {
			return a
		}
	case OpShl, OpLShr, OpAShr:
		if b.IsConst() && b.k == 0 {
			return a
		}
		if a.IsConst() && a.k == 0 {
			return a
		}
		if b.IsConst() && b.k >= uint64(w) && op != OpAShr {
			return ts.Const(0, w)
		}
	case OpUDiv, OpSDiv:
		if b.IsConst() && b.k == 1 {
			return a
		}
		if op == OpUDiv && b.IsConst() && bits.OnesCount64(b.k) == 1 {
			return ts.Bin(OpLShr, a, ts.Const(uint64(bits.TrailingZeros64(b.k)), w))
		}
	case OpURem:
		if b.IsConst() && bits.OnesCount64(b.k) == 1 {
			return ts.Bin(OpBAnd, a, ts.Const(b.k-1, w))
		}
	}
	return ts.mk(termKey{op: op, w: uint8(w)}, a, b, nil)
}

func (ts *TermStore) Extract(a *Term, hi, lo int) *Term {
	w := hi - lo + 1
	if w == int(a.w) {
		return a
	}
	if a.IsConst() {
		return ts.Const(a.k>>uint(lo), w)
	}
	if (a.op == OpZExt || a.op == OpSExt) && lo == 0 {
		if w == int(a.a.w) {
			return a.a
		}
		if w < int(a.a.w) {
			return ts.Extract(a.a, hi, 0)
		}
		if a.op == OpZExt {
			return ts.ZExt(a.a, w)
		}
		return ts.SExt(a.a, w)
	}
	if a.op == OpIte && a.b.IsConst() && a.c.IsConst() {
		return ts.Ite(a.a, ts.Extract(a.b, hi, lo), ts.Extract(a.c, hi, lo))
	}
	return ts.mk(termKey{op: OpExtract, w: uint8(w), k: uint64(hi)<<8 | uint64(lo)}, a, nil, nil)
}

func (ts *TermStore) ZExt(a *Term, w int) *Term {
	if w == int(a.w) {
		return a
	}
	if w < int(a.w) {
		return ts.Extract(a, w-1, 0)
	}
	if a.IsConst() {
		return ts.Const(a.k, w)
	}
	if a.op == OpZExt {
		return ts.ZExt(a.a, w)
	}
	if a.op == OpIte && a.b.IsConst() && a.c.IsConst() {
		return ts.Ite(a.a, ts.ZExt(a.b, w), ts.ZExt(a.c, w))
	}
	return ts.mk(termKey{op: OpZExt, w: uint8(w)}, a, nil, nil)
}

func (ts *TermStore) SExt(a *Term, w int) *Term {
	if w == int(a.w) {
		return a
	}
	if w < int(a.w) {
		return ts.Extract(a, w-1, 0)
	}
	if a.IsConst() {
		return ts.Const(uint64(sext(a.k, int(a.w))), w)
	}
	if a.op == OpZExt {
		return ts.ZExt(a.a, w)
	}
	if a.op == OpIte && a.b.IsConst() && a.c.IsConst() {
		return ts.Ite(a.a, ts.SExt(a.b, w), ts.SExt(a.c, w))
	}
	return ts.mk(termKey{op: OpSExt, w: uint8(w)}, a, nil, nil)
}

func (ts *TermStore) Neg(a *Term) *Term  { return ts.Bin(OpSub, ts.Const(0, int(a.w)), a) }
func (ts *TermStore) BNot(a *Term) *Term { return ts.Bin(OpBXor, a, ts.Const(mask(int(a.w)), int(a.w))) }

// ---- SMT-LIB printing ----

func (t *Term) ref() string {
	switch t.op {
	case OpConst:
		return fmt.Sprintf("(_ bv%d %d)", t.k, t.w)
	case OpTrue:
		return "true"
	case OpFalse:
		return "false"
	case OpVar, OpBVar:
		return "v" + fmt.Sprint(t.id)
	}
	return "t" + fmt.Sprint(t.id)
}

func (t *Term) sort() string {
	if t.w == 0 {
		return "Bool"
	}
	return fmt.Sprintf("(_ BitVec %d)", t.w)
}

func (t *Term) body() string {
	switch t.op {
	case OpExtract:
		return fmt.Sprintf("((_ extract %d %d) %s)", t.k>>8, t.k&0xff, t.a.ref())
	case OpZExt:
		return fmt.Sprintf("((_ zero_extend %d) %s)", int(t.w)-int(t.a.w), t.a.ref())
	case OpSExt:
		return fmt.Sprintf("((_ sign_extend %d) %s)", int(t.w)-int(t.a.w), t.a.ref())
	}
	var sb strings.Builder
	sb.WriteString("(")
	sb.WriteString(opSMT[t.op])
	for _, x := range []*Term{t.a, t.b, t.c} {
		if x != nil {
			sb.WriteString(" ")
			sb.WriteString(x.ref())
		}
	}
	sb.WriteString(")")
	return sb.String()
}

// String renders a term for humans (debug).
func (t *Term) String() string {
	if t.IsConst() || t.op == OpVar || t.op == OpBVar {
		if t.op == OpVar || t.op == OpBVar {
			return t.name
		}
		return t.ref()
	}
	return t.ref()
}

// ---- concrete evaluation under a model ----

func (ts *TermStore) SetModel(m map[string]uint64) {
	ts.evalGen++
	ts.evalVars = m
}

// Eval evaluates t under the current model; unknown vars are 0.
func (ts *TermStore) Eval(t *Term) uint64 {
	switch t.op {
	case OpConst:
		return t.k
	case OpTrue:
		return 1
	case OpFalse:
		return 0
	}
	if t.evalGen == ts.evalGen {
		return t.evalVal
	}
	var v uint64
	w := int(t.w)
	switch t.op {
	case OpVar, OpBVar:
		v = ts.evalVars[t.name] & mask(max(w, 1))
	case OpNot:
		v = 1 - ts.Eval(t.a)
	case OpAnd:
		v = ts.Eval(t.a) & ts.Eval(t.b)
	case OpOr:
		v = ts.Eval(t.a) | ts.Eval(t.b)
	case OpIte:
		if ts.Eval(t.a) != 0 {
			v = ts.Eval(t.b)
		} else {
			v = ts.Eval(t.c)
		}
	case OpEq:
		v = b2u(ts.Eval(t.a) == ts.Eval(t.b))
	case OpUlt:
		v = b2u(ts.Eval(t.a) < ts.Eval(t.b))
	case OpUle:
		v = b2u(ts.Eval(t.a) <= ts.Eval(t.b))
	case OpSlt:
		v = b2u(sext(ts.Eval(t.a), int(t.a.w)) < sext(ts.Eval(t.b), int(t.a.w)))
	case OpSle:
		v = b2u(sext(ts.Eval(t.a), int(t.a.w)) <= sext(ts.Eval(t.b), int(t.a.w)))
	case OpConcat:
		v = ts.Eval(t.a)<<uint(t.b.w) | ts.Eval(t.b)
	case OpExtract:
		hi, lo := int(t.k>>8), int(t.k&0xff)
		v = (ts.Eval(t.a) >> uint(lo)) & mask(hi-lo+1)
	case OpZExt:
		v = ts.Eval(t.a)
	case OpSExt:
		v = uint64(sext(ts.Eval(t.a), int(t.a.w))) & mask(w)
	default:
		v, _ = foldBin(t.op, ts.Eval(t.a), ts.Eval(t.b), w)
	}
	t.evalGen = ts.evalGen
	t.evalVal = v
	return v
}

func b2u(b bool) uint64 {
	if b {
		return 1
	}
	return 0
}

func (ts *TermStore) Concat(a, b *Term) *Term {
	if a.IsConst() && b.IsConst() {
		return ts.Const(a.k<<uint(b.w)|b.k, int(a.w)+int(b.w))
	}
	return ts.mk(termKey{op: OpConcat, w: a.w + b.w}, a, b, nil)
}

// Rebuild constructs op(a,b,c) through the simplifying constructors.
func (ts *TermStore) Rebuild(t *Term, a, b, c *Term) *Term {
	switch t.op {
	case OpNot:
		return ts.Not(a)
	case OpAnd:
		return ts.And(a, b)
	case OpOr:
		return ts.Or(a, b)
	case OpIte:
		return ts.Ite(a, b, c)
	case OpEq:
		return ts.Eq(a, b)
	case OpUlt, OpUle, OpSlt, OpSle:
		return ts.Cmp(t.op, a, b)
	case OpConcat:
		return ts.Concat(a, b)
	case OpExtract:
		return ts.Extract(a, int(t.k>>8), int(t.k&0xff))
	case OpZExt:
		return ts.ZExt(a, int(t.w))
	case OpSExt:
		return ts.SExt(a, int(t.w))
	case OpConst, OpTrue, OpFalse, OpVar, OpBVar:
		return t
	}
	return ts.Bin(t.op, a, b)
}
