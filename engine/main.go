package main

import (
	"encoding/json"
	"flag"
	"fmt"
	"bytes"
	"os"
	"path/filepath"
	"runtime"
	"runtime/pprof"
	"sort"
	"strings"
	"sync"
	"time"

	"golang.org/x/tools/go/packages"
	"golang.org/x/tools/go/ssa"
	"golang.org/x/tools/go/ssa/ssautil"
)

// ---- check specification ----

type TierSpec struct {
	Params        map[string]int `json:"params"`
	MaxSteps      int            `json:"max_steps"`
	MaxPaths      int            `json:"max_paths"`
	Preemptions   int            `json:"preemptions"`
	DeadlineS     int            `json:"deadline_s"`
	SolverTimeout int            `json:"solver_timeout_ms"`
	MaxIdleTicks  int            `json:"max_idle_ticks"`
}

type HarnessSpec struct {
	Name         string            `json:"name"`
	Pkg          string            `json:"pkg"`
	Entry        string            `json:"entry"`
	Stubs        map[string]string `json:"stubs"`
	Reach        []string          `json:"reach"`
	Twin         bool              `json:"twin"`      // run again with VERIF twin param: must be violated
	TwinLabel    string            `json:"twin_label"`
	Quick        TierSpec          `json:"quick"`
	Thorough     TierSpec          `json:"thorough"`
	NativeReplay bool              `json:"native_replay"`
	PoolNondet   bool              `json:"pool_nondet"`
	RandFixed    bool              `json:"rand_fixed"`
	TimerPreempt bool              `json:"timer_preempt"`
	ExpectEnds   []string          `json:"expect_ends"` // path-end kinds that are not violations (e.g. exit)
	Noop         []string          `json:"noop_prefixes"`
	Interpret    []string          `json:"interpret_prefixes"`
	Describe     string            `json:"describe"`
	Outside      []string          `json:"outside_bounds"`
	Assumptions  []string          `json:"assumptions"`
}

type CheckSpec struct {
	Property  string        `json:"property"`
	Files     []string      `json:"files"` // harness sources relative to /verif/harness, placed into their package dir
	Harnesses []HarnessSpec `json:"harnesses"`
}

type RunConfig struct {
	Harness       string
	Params        map[string]int
	MaxSteps      int
	MaxDepth      int
	MaxDecisions  int
	MaxConcretize int
	MaxPaths      int
	MaxSamples    int
	MaxGoroutines int
	MaxIdleTicks  int
	Preemptions   int
	Deadline      time.Duration
	PoolNondet    bool
	TimerPreempt  bool
	RandFixed     bool
	stubFns       map[string]*ssa.Function
	apiPkg        string
	noopPrefixes  []string
	solverTimeout int
	knownSigs     map[string]bool
}

var defaultNoop = []string{
	"go.uber.org/zap", "github.com/ozontech/file.d/logger", "github.com/prometheus/",
	"github.com/ozontech/file.d/metric", "log", "log/slog",
}

const apiPkgPath = "github.com/ozontech/file.d/zzverif"

// ---- loading ----

type Loaded struct {
	prog *ssa.Program
	pkgs map[string]*ssa.Package
}

func loadProgram(repo, verif string, spec *CheckSpec) (*Loaded, error) {
	overlay := map[string][]byte{}
	api, err := os.ReadFile(filepath.Join(verif, "harness/zzverif/vf.go"))
	if err != nil {
		return nil, err
	}
	overlay[filepath.Join(repo, "zzverif/vf.go")] = api
	patterns := map[string]bool{apiPkgPath: true}
	for _, f := range spec.Files {
		src, err := os.ReadFile(filepath.Join(verif, "harness", f))
		if err != nil {
			return nil, err
		}
		dir := filepath.Dir(f)
		base := "zz_verif_" + strings.TrimSuffix(filepath.Base(f), ".go") + ".go"
		overlay[filepath.Join(repo, dir, base)] = src
	}
	for _, h := range spec.Harnesses {
		patterns[h.Pkg] = true
	}
	var pats []string
	for p := range patterns {
		pats = append(pats, p)
	}
	sort.Strings(pats)
	env := os.Environ()
	var env2 []string
	for _, e := range env {
		if strings.HasPrefix(e, "GOSUMDB=") || strings.HasPrefix(e, "GOTOOLCHAIN=") || strings.HasPrefix(e, "GOFLAGS=") {
			continue
		}
		env2 = append(env2, e)
	}
	env2 = append(env2, "GOFLAGS=-mod=mod", "GOTOOLCHAIN=auto", "GOPROXY=off")
	cfg := &packages.Config{
		Mode:    packages.LoadAllSyntax,
		Dir:     repo,
		Overlay: overlay,
		Env:     env2,
	}
	pkgs, err := packages.Load(cfg, pats...)
	if err != nil {
		return nil, err
	}
	nerr := 0
	packages.Visit(pkgs, nil, func(p *packages.Package) {
		for _, e := range p.Errors {
			if nerr < 20 {
				fmt.Fprintf(os.Stderr, "load error: %v\n", e)
			}
			nerr++
		}
	})
	if nerr > 0 {
		return nil, fmt.Errorf("%d package load errors (harness does not compile against the current tree?)", nerr)
	}
	prog, _ := ssautil.AllPackages(pkgs, ssa.InstantiateGenerics)
	prog.Build()
	yieldBeforeRelease = sourceUsesTryLock(repo)
	l := &Loaded{prog: prog, pkgs: map[string]*ssa.Package{}}
	for _, p := range prog.AllPackages() {
		l.pkgs[p.Pkg.Path()] = p
	}
	return l, nil
}

// table-only packages whose globals are initialised once per worker
var persistPkgs = map[string]bool{
	"unicode": true, "unicode/utf8": true, "unicode/utf16": true, "strconv": true, "math/bits": true, "math": true,
	"internal/bytealg": true, "internal/cpu": true, "html": true, "encoding/hex": true, "encoding/base64": true,
	"internal/itoa": true, "errors": true, "io": true, "internal/oserror": true, "syscall": true, "io/fs": true,
	"time": true, "os": true, "internal/poll": true, "internal/godebug": true, "internal/godebugs": true,
	"regexp/syntax": true, "regexp": true, "sort": true, "bytes": true, "strings": true, "unicode/tables": true,
	"context": true, "sync": true, "sync/atomic": true, "runtime": true, "reflect": true, "internal/reflectlite": true,
	"fmt": true, "bufio": true, "path/filepath": true, "path": true, "encoding/binary": true, "math/rand": true,
	"hash/crc32": true, "compress/flate": true, "compress/gzip": true, "net/http": true, "net": true, "net/url": true,
	"encoding/json": true, "math/big": true, "crypto/rand": true, "mime": true, "log": true, "internal/testlog": true,
}

func newInterp(l *Loaded, cfg *RunConfig, ex *Explorer, wid int) *Interp {
	in := &Interp{prog: l.prog, cfg: cfg, ex: ex, wid: wid,
		fnInfos: map[*ssa.Function]*fnInfo{}, constCache: map[*ssa.Const]Value{},
		persist: map[*ssa.Global]*Value{}, persistOK: map[*ssa.Package]bool{}}
	in.ts = NewTermStore()
	in.sol = NewSolver(in.ts, os.Getenv("GOSYM_SOLVER"), cfg.solverTimeout)
	for path, p := range l.pkgs {
		if persistPkgs[path] || (!strings.HasPrefix(path, "github.com/ozontech/file.d") && !strings.Contains(path, ".")) {
			// standard library: initialise once per worker
			in.persistOK[p] = true
		}
	}
	return in
}

func (in *Interp) resetPath(prefix []Decision) {
	in.globals = map[*ssa.Global]*Value{}
	in.inited = map[*ssa.Package]bool{}
	in.steps, in.depth, in.initDepth = 0, 0, 0
	in.pools = map[*Value][]Value{}
	in.onceDone = map[*Value]bool{}
	in.nameCount = map[string]int{}
	in.harness = map[string]Value{}
	in.uintptrs = map[uint64]Value{}
	in.elemBacking = map[*Value][]Value{}
	in.timerOf = map[*Value]*timerEnt{}
	in.localFuncs = map[string]bool{}
	in.wrapped = map[*Value]Iface{}
	in.lastPanic = nil
	in.engineErr = nil
	in.sched = newSched(in)
	in.path = &Path{prefix: prefix, reached: map[string]bool{}, chosen: map[string]uint64{}, concrete: in.concreteInputs}
}

func (in *Interp) runPath(prefix []Decision, entry *ssa.Function) {
	in.resetPath(prefix)
	p := in.path
	end := pathEnd{"ok", ""}
	var endFrameSite string
	func() {
		defer func() {
			r := recover()
			switch x := r.(type) {
			case nil:
			case pathEnd:
				end = x
			case *goPanic:
				end = pathEnd{"panic", "panic: " + x.msg + " [" + x.site + "]"}
				in.lastPanic = x
				endFrameSite = x.site
			case *engineBug:
				end = pathEnd{"engine-error", x.String()}
			default:
				buf := make([]byte, 1<<12)
				n := runtime.Stack(buf, false)
				end = pathEnd{"engine-error", fmt.Sprintf("%v\n%s", r, buf[:n])}
			}
		}()
		in.callFunction(nil, entry, nil, nil)
	}()
	if in.engineErr != nil && end.kind != "engine-error" {
		end = pathEnd{"engine-error", fmt.Sprintf("%v", in.engineErr)}
	}
	in.sched.teardown()
	vios := p.vios
	expected := false
	for _, k := range in.cfgExpectEnds {
		if k == end.kind {
			expected = true
		}
	}
	switch end.kind {
	case "panic", "exit", "deadlock", "wedge":
		if !expected {
			label := end.kind
			site := endFrameSite
			if in.lastPanic != nil && end.kind == "panic" {
				site = in.lastPanic.site
			}
			if end.kind == "panic" {
				label = "panic@" + in.siteSig(site)
			}
			v := in.mkViolation(end.kind, label, nil, end.msg)
			if v != nil {
				v.Site = site
				vios = append(vios, v)
			}
		}
	}
	if end.kind == "ok" && len(p.trace) >= len(p.prefix) {
		in.ex.maybeSample(in, p)
	}
	in.ex.record(in, p, end, vios)
}

// siteSig turns "func@file:line" into "func:<source text of the line>" so that
// signatures survive line shifts.
func (in *Interp) siteSig(site string) string {
	i := strings.LastIndex(site, "@")
	if i < 0 {
		return site
	}
	fn, pos := site[:i], site[i+1:]
	j := strings.LastIndex(pos, ":")
	if j < 0 {
		return site
	}
	file := pos[:j]
	var line int
	fmt.Sscanf(pos[j+1:], "%d", &line)
	for _, root := range []string{"/repo/", os.Getenv("GOMODCACHE") + "/", "/root/go/pkg/mod/", ""} {
		data, err := os.ReadFile(root + file)
		if err != nil {
			continue
		}
		lines := strings.Split(string(data), "\n")
		if line >= 1 && line <= len(lines) {
			return fn + ":" + strings.Join(strings.Fields(lines[line-1]), " ")
		}
	}
	return fn
}

func (ex *Explorer) maybeSample(in *Interp, p *Path) {
	ex.mu.Lock()
	need := len(ex.samples) < ex.cfg.MaxSamples
	ex.mu.Unlock()
	if !need {
		return
	}
	m := p.model(in)
	if m == nil {
		return
	}
	for k, v := range p.chosen {
		m[k] = v
	}
	var obs []string
	for _, o := range p.obsVals {
		var parts []string
		for _, x := range o.vals {
			parts = append(parts, in.renderObsModel(x))
		}
		obs = append(obs, o.label+"="+strings.Join(parts, ","))
	}
	var reached []string
	for l := range p.reached {
		reached = append(reached, l)
	}
	sort.Strings(reached)
	ex.addSample(map[string]interface{}{"harness": ex.cfg.Harness, "inputs": m, "observed": obs, "reached": reached, "decisions": len(p.trace), "schedule": in.sched.schedule})
}

// ---- running one harness ----

type HarnessResult struct {
	Name        string
	Paths       int
	Ends        map[string]int
	EndSamples  map[string][]string
	Decisions   int
	Reached     map[string]int
	Violations  []*Violation
	Funcs       []string
	Samples     []map[string]interface{}
	Queries     int
	SolverTimeS float64
	Unknown     int
	SolverErrs  int
	WallS       float64
	Truncated   bool
	MaxDecDepth int
	Steps       int64
}

var knownSigsGlobal = map[string]bool{}

func runHarness(l *Loaded, spec *CheckSpec, h *HarnessSpec, tier string, extraParams map[string]int, workers int) (*HarnessResult, error) {
	ts := h.Quick
	if tier == "thorough" {
		ts = h.Thorough
		if ts.Params == nil && ts.MaxSteps == 0 {
			ts = h.Quick
		}
	}
	pkg := l.pkgs[h.Pkg]
	if pkg == nil {
		return nil, fmt.Errorf("package %s not loaded", h.Pkg)
	}
	entry := pkg.Func(h.Entry)
	if entry == nil {
		return nil, fmt.Errorf("entry %s not found in %s", h.Entry, h.Pkg)
	}
	cfg := &RunConfig{Harness: h.Name, Params: map[string]int{}, MaxSteps: 2_000_000, MaxDepth: 400, MaxDecisions: 20000,
		MaxConcretize: 300, MaxSamples: 6, MaxGoroutines: 16, MaxIdleTicks: 40, Preemptions: ts.Preemptions,
		PoolNondet: h.PoolNondet, TimerPreempt: h.TimerPreempt, RandFixed: h.RandFixed, apiPkg: apiPkgPath, solverTimeout: 10000}
	for k, v := range ts.Params {
		cfg.Params[k] = v
	}
	for k, v := range extraParams {
		cfg.Params[k] = v
	}
	if ts.MaxSteps > 0 {
		cfg.MaxSteps = ts.MaxSteps
	}
	if v := os.Getenv("GOSYM_MAXSTEPS"); v != "" {
		fmt.Sscanf(v, "%d", &cfg.MaxSteps)
	}
	if ts.MaxPaths > 0 {
		cfg.MaxPaths = ts.MaxPaths
	}
	if ts.DeadlineS > 0 {
		cfg.Deadline = time.Duration(ts.DeadlineS) * time.Second
	} else if tier == "thorough" {
		// every harness gets a wall-clock budget; a run that hits it is reported as truncated
		// (what was explored held), never as a completed bound
		// 40 minutes per property, shared by its harnesses (at least 90 seconds, at most 15 minutes each)
		per := 2400 / nSelected
		if per > 900 {
			per = 900
		}
		if per < 90 {
			per = 90
		}
		cfg.Deadline = time.Duration(per) * time.Second
	} else {
		cfg.Deadline = 600 * time.Second
	}
	if v := os.Getenv("GOSYM_DEADLINE_S"); v != "" {
		var d int
		fmt.Sscanf(v, "%d", &d)
		if d > 0 {
			cfg.Deadline = time.Duration(d) * time.Second
		}
	}
	if ts.SolverTimeout > 0 {
		cfg.solverTimeout = ts.SolverTimeout
	} else if tier == "thorough" {
		cfg.solverTimeout = 60000
	}
	if ts.MaxIdleTicks > 0 {
		cfg.MaxIdleTicks = ts.MaxIdleTicks
	}
	cfg.knownSigs = knownSigsGlobal
	cfg.noopPrefixes = append(append([]string{}, defaultNoop...), h.Noop...)
	if len(h.Interpret) > 0 {
		var keep []string
		for _, p := range cfg.noopPrefixes {
			drop := false
			for _, q := range h.Interpret {
				if p == q {
					drop = true
				}
			}
			if !drop {
				keep = append(keep, p)
			}
		}
		cfg.noopPrefixes = keep
	}
	if err := fillStubs(l, h, cfg); err != nil {
		return nil, err
	}
	ex := &Explorer{cfg: cfg, prog: l.prog, ends: map[string]int{}, endSamples: map[string][]string{}, reached: map[string]int{},
		vioSeen: map[string]int{}, funcs: map[string]bool{}, started: time.Now()}
	ex.cond = sync.NewCond(&ex.mu)
	ex.work = [][]Decision{nil}
	var wg sync.WaitGroup
	var mu sync.Mutex
	var totalSteps int64
	for w := 0; w < workers; w++ {
		wg.Add(1)
		go func(w int) {
			defer wg.Done()
			in := newInterp(l, cfg, ex, w)
			in.cfgExpectEnds = h.ExpectEnds
			defer in.sol.Close()
			for {
				pre, ok := ex.pop()
				if !ok {
					break
				}
				in.runPath(pre, entry)
				mu.Lock()
				totalSteps += int64(in.steps)
				mu.Unlock()
				ex.done()
			}
			ex.mu.Lock()
			ex.queries += in.sol.Queries
			ex.solverTime += in.sol.SolveTime
			ex.modelTime += in.sol.ModelTime
			ex.solverErrs += in.sol.Errors
			ex.mu.Unlock()
		}(w)
	}
	wg.Wait()
	res := &HarnessResult{Name: h.Name, Paths: ex.paths, Ends: ex.ends, EndSamples: ex.endSamples, Decisions: ex.decisions,
		Reached: ex.reached, Violations: ex.violations, Samples: ex.samples, Queries: ex.queries,
		SolverTimeS: ex.solverTime.Seconds(), Unknown: ex.nUnknown, SolverErrs: ex.solverErrs,
		WallS: time.Since(ex.started).Seconds(), Truncated: ex.truncated || ex.stoppedOnViolation, MaxDecDepth: ex.maxDepthDec, Steps: totalSteps}
	if os.Getenv("GOSYM_PROGRESS") != "" {
		fmt.Fprintf(os.Stderr, "gosym: idle=%.1fs model=%.1fs solver=%.1fs steps=%d\n", ex.idle.Seconds(), ex.modelTime.Seconds(), ex.solverTime.Seconds(), totalSteps)
	}
	for f := range ex.funcs {
		res.Funcs = append(res.Funcs, f)
	}
	sort.Strings(res.Funcs)
	return res, nil
}

// replayConcrete re-executes a violation with all inputs bound to the model.
func replayConcrete(l *Loaded, h *HarnessSpec, base *RunConfig, v *Violation) (bool, string) {
	cfg := *base
	ex := &Explorer{cfg: &cfg, prog: l.prog, ends: map[string]int{}, endSamples: map[string][]string{}, reached: map[string]int{},
		vioSeen: map[string]int{}, funcs: map[string]bool{}, started: time.Now()}
	ex.cond = sync.NewCond(&ex.mu)
	in := newInterp(l, &cfg, ex, 0)
	in.cfgExpectEnds = h.ExpectEnds
	defer in.sol.Close()
	pkg := l.pkgs[h.Pkg]
	entry := pkg.Func(h.Entry)
	// keep only non-branch decisions
	var pre []Decision
	for _, d := range v.Decs {
		if d.Kind == DSched || d.Kind == DEnv {
			pre = append(pre, d)
		}
	}
	in.concreteInputs = v.Inputs
	in.runPath(pre, entry)
	for _, got := range ex.violations {
		if got.Sig == v.Sig {
			return true, ""
		}
	}
	var sigs []string
	for _, got := range ex.violations {
		sigs = append(sigs, got.Sig)
	}
	return false, fmt.Sprintf("concrete re-execution ended %v with violations %v", ex.ends, sigs)
}

func fillStubs(l *Loaded, h *HarnessSpec, cfg *RunConfig) error {
	cfg.stubFns = map[string]*ssa.Function{}
	pkg := l.pkgs[h.Pkg]
	for real, stub := range h.Stubs {
		sf := pkg.Func(stub)
		if sf == nil {
			return fmt.Errorf("stub %s not found in %s", stub, h.Pkg)
		}
		cfg.stubFns[real] = sf
	}
	return nil
}

// ---- CLI ----

func main() {
	if len(os.Args) < 2 {
		fmt.Fprintln(os.Stderr, "usage: gosym run|selftest ...")
		os.Exit(2)
	}
	switch os.Args[1] {
	case "run":
		os.Exit(cmdRun(os.Args[2:]))
	default:
		fmt.Fprintln(os.Stderr, "unknown command")
		os.Exit(2)
	}
}

func cmdRun(args []string) int {
	fs := flag.NewFlagSet("run", flag.ExitOnError)
	specPath := fs.String("spec", "", "check spec json")
	tier := fs.String("tier", "quick", "quick|thorough")
	repo := fs.String("repo", "/repo", "repository root")
	verif := fs.String("verif", "/verif", "verif root")
	out := fs.String("out", "", "result json path")
	only := fs.String("harness", "", "run only this harness")
	workers := fs.Int("workers", 16, "worker count")
	paramStr := fs.String("params", "", "k=v,k=v overrides")
	prof := fs.String("cpuprofile", "", "write cpu profile")
	fs.Parse(args)
	if *prof != "" {
		f, _ := os.Create(*prof)
		pprof.StartCPUProfile(f)
		defer pprof.StopCPUProfile()
	}
	data, err := os.ReadFile(*specPath)
	if err != nil {
		fmt.Fprintln(os.Stderr, err)
		return 2
	}
	var spec CheckSpec
	if err := json.Unmarshal(data, &spec); err != nil {
		fmt.Fprintln(os.Stderr, "spec:", err)
		return 2
	}
	extra := map[string]int{}
	if *paramStr != "" {
		for _, kv := range strings.Split(*paramStr, ",") {
			var k string
			var v int
			parts := strings.SplitN(kv, "=", 2)
			k = parts[0]
			fmt.Sscanf(parts[1], "%d", &v)
			extra[k] = v
		}
	}
	t0 := time.Now()
	l, err := loadProgram(*repo, *verif, &spec)
	if err != nil {
		fmt.Fprintln(os.Stderr, "gosym: load failed:", err)
		return 2
	}
	loadS := time.Since(t0).Seconds()
	defer pprof.StopCPUProfile()
	return runSpec(l, &spec, *tier, *only, *workers, extra, *out, *verif, *repo, loadS)
}

// yieldBeforeRelease: the scheduler normally has no scheduling point before a mutex release (a switch there
// commutes with a switch before the acquire as long as other goroutines can only block on the mutex). That
// reduction is unsound once somebody can observe "held" without blocking, so it is switched off when the
// tree under analysis calls TryLock / TryRLock anywhere outside its tests.
var yieldBeforeRelease bool

func sourceUsesTryLock(repo string) bool {
	found := false
	_ = filepath.WalkDir(repo, func(path string, d os.DirEntry, err error) error {
		if err != nil || found {
			return nil
		}
		if d.IsDir() {
			if n := d.Name(); n == ".git" || n == "vendor" || n == "e2e" || n == "testdata" {
				return filepath.SkipDir
			}
			return nil
		}
		if !strings.HasSuffix(path, ".go") || strings.HasSuffix(path, "_test.go") {
			return nil
		}
		b, err := os.ReadFile(path)
		if err == nil && (bytes.Contains(b, []byte(".TryLock(")) || bytes.Contains(b, []byte(".TryRLock("))) {
			found = true
		}
		return nil
	})
	return found
}
